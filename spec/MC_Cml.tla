------------------------------- MODULE MC_Cml -------------------------------
(***************************************************************************)
(* Enumerates CML documents: 1..MaxAtoms atoms, id schemes (sequential,     *)
(* shuffled, non-sequential, arbitrary strings, ids that look like another  *)
(* atom's ordinal), every bond list over the ids up to MaxBonds entries in  *)
(* both reference directions (including none), coordinates of any sign,     *)
(* magnitude and notation.                                                 *)
(***************************************************************************)
EXTENDS CmlDoc, Json
CONSTANTS MaxAtoms, MaxBonds, Emit
VARIABLES doc
vars == <<doc>>

Tok(t, n, e) == [text |-> t, num |-> n, e |-> e]
Coords == <<Tok("0", 0, 0), Tok("1.5", 15, -1), Tok("-2.25", -225, -2), Tok("12345.678", 12345678, -3),
            Tok("2.5e-05", 25, -6), Tok("-3E+2", -3, 2), Tok("0.349", 349, -3), Tok("-1207.0", -1207, 0)>>
ElsSeq == <<"C", "O", "H", "Zr">>
\* id of atom i (1-based) in a document of n atoms
Id(s, n, i) == CASE s = "seq"      -> "a" \o ToString(i)
                 [] s = "shuffled" -> "a" \o ToString(((i + 1) % n) + 1)            \* a permutation of a1..an, never in order for n >= 2
                 [] s = "reversed" -> "a" \o ToString(n + 1 - i)
                 [] s = "gaps"     -> "a" \o ToString(<<10, 2, 7, 31>>[i])
                 [] s = "strings"  -> <<"C_alpha", "x", "y2", "Zr-1">>[i]
                 [] s = "offbyone" -> "a" \o ToString(i + 1)                        \* a2..a(n+1): looks like another atom's ordinal
Schemes == {"seq", "shuffled", "reversed", "gaps", "strings", "offbyone"}

AtomsFor(n, s, c0) == [i \in 1..n |-> [id |-> Id(s, n, i), el |-> ElsSeq[((i + c0) % 4) + 1],
                                      x |-> Coords[((i + c0) % 8) + 1], y |-> Coords[((2 * i + c0) % 8) + 1],
                                      z |-> Coords[((3 * i + c0 + 1) % 8) + 1]]]
Pairs(n) == {<<i, j>> \in (1..n) \X (1..n) : i # j}
RECURSIVE BondSeqs(_, _)
BondSeqs(n, k) == IF k = 0 THEN {<<>>}
                  ELSE BondSeqs(n, k - 1) \cup {Append(b, p) : b \in {b \in BondSeqs(n, k - 1) : Len(b) = k - 1}, p \in Pairs(n)}

\* long documents (ids with two digits): a ring of n atoms
Long(n, s) == [atoms |-> AtomsFor(n, s, 0),
               bonds |-> [k \in 1..n |-> [a |-> Id(s, n, k), b |-> Id(s, n, (k % n) + 1), order |-> (k % 2) + 1]]]
Short == \E n \in 1..MaxAtoms, s \in Schemes, c0 \in 0..2 :
         \E bs \in BondSeqs(n, IF n = 1 THEN 0 ELSE MaxBonds) :
            doc = [atoms |-> AtomsFor(n, s, c0),
                   bonds |-> [k \in 1..Len(bs) |-> [a |-> Id(s, n, bs[k][1]), b |-> Id(s, n, bs[k][2]), order |-> (k % 2) + 1]]]
Init == (\E n \in {12, 23}, s \in {"seq", "shuffled", "reversed", "offbyone"} : doc = Long(n, s)) \/ Short
Next == UNCHANGED doc
Spec == Init /\ [][Next]_vars
ModelInv == WellFormed(doc) /\ Len(Load(doc).bonds) = Len(doc.bonds)
EmitInv == Emit => PrintT(<<"DOC", ToJson(doc)>>)
=============================================================================
