----------------------------- MODULE AtomsImpl -----------------------------
(***************************************************************************)
(* Design level of mofun.Atoms: the *algorithms* the implementation uses,   *)
(* on K-level values (arrays, 0-based indices, raw type ids, tables):       *)
(*   extend_types   append the other's tables, hand out per-kind offsets    *)
(*   extend         retype mapped atoms, append the others, convert the     *)
(*                  other's term indices, find existing terms on the same   *)
(*                  atoms forwards / backwards, append-then-delete          *)
(*   delete         bulk row deletion, term filtering, index shifting       *)
(*                  processed from the highest deleted index down           *)
(* MC_AtomsImpl checks that these algorithms *refine* the property-level    *)
(* operations of AtomsAbs through Abs (bounded).  Two constants select      *)
(* design variants that are expected to be refuted (standing negative       *)
(* controls): OffsetRule = "types_in_use" is the rule the code had before    *)
(* its repair (offset 0 for a kind with no terms left, although the table    *)
(* kept its length); DeleteOrder = "ascending" shifts indices starting from  *)
(* the lowest deleted index.                                                *)
(***************************************************************************)
EXTENDS AtomsAbs

CONSTANTS OffsetRule, DeleteOrder

MaxOf(s) == CHOOSE x \in {s[i] : i \in DOMAIN s} : \A j \in DOMAIN s : s[j] <= x

NumTermTypes(T) ==
  IF OffsetRule = "table_length"
  THEN (IF Len(T.co) > 0 THEN Len(T.co) ELSE IF Len(T.ty) = 0 THEN 0 ELSE MaxOf(T.ty) + 1)
  ELSE (IF Len(T.ty) = 0 THEN 0 ELSE IF Len(T.co) > 0 THEN Len(T.co) ELSE MaxOf(T.ty) + 1)
NumAtomTypes(K) == IF OffsetRule = "table_length" THEN Len(K.tel) ELSE IF Len(K.ty) = 0 THEN 0 ELSE Len(K.tel)

Offsets(K) == [atom |-> NumAtomTypes(K), bond |-> NumTermTypes(K.bond), angle |-> NumTermTypes(K.angle),
               dihedral |-> NumTermTypes(K.dihedral), improper |-> NumTermTypes(K.improper)]

AppendCo(T, U) == [T EXCEPT !.co = T.co \o U.co]
ExtendTypesK(K, O) ==
  [K EXCEPT !.tel = K.tel \o O.tel, !.tmass = K.tmass \o O.tmass, !.tlab = K.tlab \o O.tlab, !.tpc = K.tpc \o O.tpc,
            !.bond = AppendCo(K.bond, O.bond), !.angle = AppendCo(K.angle, O.angle),
            !.dihedral = AppendCo(K.dihedral, O.dihedral), !.improper = AppendCo(K.improper, O.improper)]

\* extend: map is a function from 0-based indices of O to 0-based indices of K (atoms declared identical); structures
\* without extra columns (the label-merge of extra columns is specified at property level only)
ExtendK(K, O, map, offs) ==
  LET n == Len(K.q)
      toadd == SelectSeq([j \in 1..Len(O.q) |-> j - 1], LAMBDA j : j \notin DOMAIN map)
      newidx(j) == IF j \in DOMAIN map THEN map[j]
                   ELSE n + (CHOOSE p \in 1..Len(toadd) : toadd[p] = j) - 1
      retyped == [i \in 1..n |-> IF \E j \in DOMAIN map : map[j] = i - 1
                                 THEN O.ty[(CHOOSE j \in DOMAIN map : map[j] = i - 1) + 1] + offs.atom
                                 ELSE K.ty[i]]
      app(f) == [p \in 1..Len(toadd) |-> f[toadd[p] + 1]]
      kind(k) ==
        LET T == K[k]  U == O[k]
        IN IF Len(U.ix) = 0 THEN T
           ELSE LET new == [m \in 1..Len(U.ix) |-> [p \in 1..Arity(k) |-> newidx(U.ix[m][p])]]
                    dead == {m \in 1..Len(T.ix) : \E q \in 1..Len(new) : T.ix[m] = new[q] \/ T.ix[m] = Rev(new[q])}
                    keep == SelectSeq([m \in 1..Len(T.ix) |-> m], LAMBDA m : m \notin dead)
                IN [T EXCEPT !.ix = [m \in 1..Len(keep) |-> T.ix[keep[m]]] \o new,
                             !.ty = [m \in 1..Len(keep) |-> T.ty[keep[m]]] \o [m \in 1..Len(U.ty) |-> U.ty[m] + offs[k]],
                             !.xf = [m \in 1..Len(keep) |-> T.xf[keep[m]]] \o U.xf]
  IN [K EXCEPT !.ty = retyped \o [p \in 1..Len(toadd) |-> O.ty[toadd[p] + 1] + offs.atom],
               !.pos = K.pos \o app(O.pos), !.q = K.q \o app(O.q), !.grp = K.grp \o app(O.grp), !.xa = K.xa \o app(O.xa),
               !.bond = kind("bond"), !.angle = kind("angle"), !.dihedral = kind("dihedral"), !.improper = kind("improper")]

\* delete: D is the set of 0-based indices
RECURSIVE SortedSeq(_, _)
SortedSeq(S, desc) == IF S = {} THEN <<>>
                      ELSE LET x == IF desc THEN CHOOSE x \in S : \A y \in S : y <= x ELSE CHOOSE x \in S : \A y \in S : x <= y
                           IN <<x>> \o SortedSeq(S \ {x}, desc)
RECURSIVE ShiftAll(_, _)
ShiftAll(rows, order) ==      \* for i in order: every index greater than i is decremented
  IF order = <<>> THEN rows
  ELSE ShiftAll([m \in 1..Len(rows) |-> [p \in 1..Len(rows[m]) |-> IF rows[m][p] > Head(order) THEN rows[m][p] - 1 ELSE rows[m][p]]], Tail(order))

DeleteK(K, D) ==
  LET keepA == SelectSeq([i \in 1..Len(K.q) |-> i], LAMBDA i : (i - 1) \notin D)
      col(f) == [p \in 1..Len(keepA) |-> f[keepA[p]]]
      order == SortedSeq(D, DeleteOrder = "descending")
      kind(k) ==
        LET T == K[k]
            keep == SelectSeq([m \in 1..Len(T.ix) |-> m], LAMBDA m : \A p \in 1..Arity(k) : T.ix[m][p] \notin D)
        IN [T EXCEPT !.ix = ShiftAll([m \in 1..Len(keep) |-> T.ix[keep[m]]], order),
                     !.ty = [m \in 1..Len(keep) |-> T.ty[keep[m]]], !.xf = [m \in 1..Len(keep) |-> T.xf[keep[m]]]]
  IN [K EXCEPT !.ty = col(K.ty), !.pos = col(K.pos), !.q = col(K.q), !.grp = col(K.grp), !.xa = col(K.xa),
               !.bond = kind("bond"), !.angle = kind("angle"), !.dihedral = kind("dihedral"), !.improper = kind("improper")]
=============================================================================
