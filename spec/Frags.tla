------------------------------- MODULE Frags -------------------------------
(***************************************************************************)
(* Library of small, internally consistent structures (K-level values)     *)
(* from which TLC builds Atoms histories.  Every type of every fragment    *)
(* has a unique, self-identifying label / coefficient text, so a type id   *)
(* that resolves through the wrong table entry is visible as a wrong text. *)
(* Masses are real element masses (micro units) so that LAMMPS files       *)
(* written from these structures read back to the same elements.           *)
(***************************************************************************)
EXTENDS Integers, Sequences, TLC

NoTerms == [ix |-> <<>>, ty |-> <<>>, co |-> <<>>, xf |-> <<>>, xl |-> <<>>]

MassOf(el) == CASE el = "H" -> 1007940 [] el = "C" -> 12010700 [] el = "N" -> 14006700
                [] el = "O" -> 15999400 [] el = "F" -> 18998403 [] el = "Zr" -> 91224000
                [] el = "Cu" -> 63546000 [] OTHER -> 0

Dots(n, w) == [i \in 1..n |-> [c \in 1..w |-> "."]]

\* f: name, els: element per type, ty: type id per atom (0-based), pos, grp, param: with tables?
Base(f, els, ty, pos, grp, param) ==
  [ty |-> ty, q |-> [i \in 1..Len(ty) |-> i], grp |-> grp, pos |-> pos,
   xa |-> Dots(Len(ty), 0), xal |-> <<>>,
   tel |-> els, tmass |-> [t \in 1..Len(els) |-> MassOf(els[t])],
   tlab |-> [t \in 1..Len(els) |-> f \o ".a" \o ToString(t-1)],
   tpc |-> IF param THEN [t \in 1..Len(els) |-> "lj/cut 0." \o ToString(t) \o " 3.1 # " \o f \o ".p" \o ToString(t-1)] ELSE <<>>,
   bond |-> NoTerms, angle |-> NoTerms, dihedral |-> NoTerms, improper |-> NoTerms,
   cell |-> <<>>]

Terms(f, kc, ix, ty, ntypes, param) ==
  [ix |-> ix, ty |-> ty,
   co |-> IF param THEN [t \in 1..ntypes |-> "harmonic " \o ToString(t) \o ".5 # " \o f \o "." \o kc \o ToString(t-1)] ELSE <<>>,
   xf |-> Dots(Len(ix), 0), xl |-> <<>>]

\* ---- the fragments ----------------------------------------------------------
\* single parameterised atom
F1p == Base("F1p", <<"F">>, <<0>>, <<<<1,1,1>>>>, <<3>>, TRUE)

\* C-O pair, one bond of type 1; bond type 0 is declared in the table but unused
F2p == [Base("F2p", <<"C","O">>, <<0,1>>, <<<<1,1,1>>,<<2,1,1>>>>, <<1,1>>, TRUE)
          EXCEPT !.bond = Terms("F2p", "b", <<<<0,1>>>>, <<1>>, 2, TRUE)]

\* same without any coefficient table (bare)
F2b == [Base("F2b", <<"C","N">>, <<0,1>>, <<<<1,2,1>>,<<2,2,1>>>>, <<0,0>>, FALSE)
          EXCEPT !.bond = Terms("F2b", "b", <<<<0,1>>>>, <<0>>, 1, FALSE)]

\* H-O-H: two bonds of one type (second listed backwards), one angle
F3p == [Base("F3p", <<"H","O">>, <<0,1,0>>, <<<<1,1,2>>,<<2,1,2>>,<<2,2,2>>>>, <<2,2,2>>, TRUE)
          EXCEPT !.bond = Terms("F3p", "b", <<<<0,1>>,<<2,1>>>>, <<0,0>>, 1, TRUE),
                 !.angle = Terms("F3p", "n", <<<<0,1,2>>>>, <<0>>, 1, TRUE)]

\* three-membered ring: the three angles are on the same three atoms in permuted (not reversed) order
F3r == [Base("F3r", <<"C","O","N">>, <<0,1,2>>, <<<<5,1,1>>,<<6,1,1>>,<<5,2,1>>>>, <<4,4,4>>, TRUE)
          EXCEPT !.bond = Terms("F3r", "b", <<<<0,1>>,<<1,2>>,<<2,0>>>>, <<0,1,2>>, 3, TRUE),
                 !.angle = Terms("F3r", "n", <<<<0,1,2>>,<<1,2,0>>,<<2,0,1>>>>, <<0,1,2>>, 3, TRUE)]

\* force-field typed structure: the same element in two different atom types (C.a0 and C.a2)
F3e == [Base("F3e", <<"C","N","C">>, <<0,1,2>>, <<<<5,5,2>>,<<6,5,2>>,<<7,5,2>>>>, <<0,0,0>>, TRUE)
          EXCEPT !.bond = Terms("F3e", "b", <<<<0,1>>,<<1,2>>>>, <<0,1>>, 2, TRUE),
                 !.angle = Terms("F3e", "n", <<<<0,1,2>>>>, <<0>>, 1, TRUE)]

\* laid over an F3r instance (same three positions): redeclares only one of the three ring angles, backwards
F3q == [Base("F3q", <<"C","O","N">>, <<0,1,2>>, <<<<5,1,1>>,<<6,1,1>>,<<5,2,1>>>>, <<4,4,4>>, TRUE)
          EXCEPT !.angle = Terms("F3q", "n", <<<<2,1,0>>>>, <<0>>, 1, TRUE),
                 !.bond = Terms("F3q", "b", <<<<1,0>>>>, <<0>>, 1, TRUE)]
OverlayBase(f) == IF f = "F3q" THEN "F3r" ELSE f

\* angle and dihedral-free structure *without bonds* (terms of one kind only)
F3a == [Base("F3a", <<"O","C">>, <<0,1,0>>, <<<<5,4,1>>,<<6,4,1>>,<<7,4,1>>>>, <<0,0,0>>, TRUE)
          EXCEPT !.angle = Terms("F3a", "n", <<<<0,1,2>>>>, <<0>>, 1, TRUE)]

\* bare chain with three bond types: deleting the middle bond leaves a gap in the ids in use
F4b == [Base("F4b", <<"C","N">>, <<0,1,1,0>>, <<<<1,5,1>>,<<2,5,1>>,<<3,5,1>>,<<4,5,1>>>>, <<0,0,2,2>>, FALSE)
          EXCEPT !.bond = Terms("F4b", "b", <<<<0,1>>,<<3,2>>,<<1,2>>>>, <<0,1,2>>, 3, FALSE)]

\* C-N-N-C chain with all four kinds of terms; two impropers on the same four atoms in
\* permuted (not reversed) order, and two bond types
F4p == [Base("F4p", <<"C","N">>, <<0,1,1,0>>, <<<<1,1,3>>,<<2,1,3>>,<<3,1,3>>,<<4,1,3>>>>, <<0,0,1,1>>, TRUE)
          EXCEPT !.bond = Terms("F4p", "b", <<<<0,1>>,<<1,2>>,<<2,3>>>>, <<0,1,0>>, 2, TRUE),
                 !.angle = Terms("F4p", "n", <<<<2,1,0>>,<<1,2,3>>>>, <<0,0>>, 1, TRUE),
                 !.dihedral = Terms("F4p", "d", <<<<3,2,1,0>>>>, <<0>>, 1, TRUE),
                 !.improper = Terms("F4p", "i", <<<<1,0,2,3>>,<<1,2,3,0>>>>, <<0,1>>, 2, TRUE)]

\* CIF-like: extra per-atom and per-bond columns, no coefficient tables
F3x == [Base("F3x", <<"Cu","O">>, <<0,1,1>>, <<<<1,3,1>>,<<2,3,1>>,<<1,4,1>>>>, <<0,0,0>>, FALSE)
          EXCEPT !.xal = <<"_occ","_site">>, !.xa = <<<<"1.0","s1">>,<<"0.5","s2">>,<<"0.5","s3">>>>,
                 !.bond = [ix |-> <<<<0,1>>,<<0,2>>>>, ty |-> <<0,1>>, co |-> <<>>,
                           xf |-> <<<<"S","1_555">>,<<"D","1_655">>>>, xl |-> <<"_order","_sym">>]]

\* same labels in another column order, plus one more label; used as the *other* structure
F2y == [Base("F2y", <<"Cu","O">>, <<0,1>>, <<<<3,3,1>>,<<3,4,1>>>>, <<0,0>>, FALSE)
          EXCEPT !.xal = <<"_site","_occ","_u">>, !.xa = <<<<"t1","0.25","u1">>,<<"t2","0.75","u2">>>>,
                 !.bond = [ix |-> <<<<1,0>>>>, ty |-> <<0>>, co |-> <<>>,
                           xf |-> <<<<"1_455","A">>>>, xl |-> <<"_sym","_order">>]]

\* exactly the labels of F3x (other column order, no new label) with longer values than any F3x holds
F2z == [Base("F2z", <<"Cu","O">>, <<0,1>>, <<<<4,3,1>>,<<4,4,1>>>>, <<0,0>>, FALSE)
          EXCEPT !.xal = <<"_site","_occ">>, !.xa = <<<<"site_long_1","0.12345">>,<<"site_long_2","0.98765">>>>,
                 !.bond = [ix |-> <<<<0,1>>>>, ty |-> <<0>>, co |-> <<>>,
                           xf |-> <<<<"1_455_long","Aromatic">>>>, xl |-> <<"_sym","_order">>]]

Empty == Base("E", <<>>, <<>>, <<>>, <<>>, FALSE)

Frag(f) == CASE f = "F1p" -> F1p [] f = "F2p" -> F2p [] f = "F2b" -> F2b [] f = "F3p" -> F3p
             [] f = "F4p" -> F4p [] f = "F3r" -> F3r [] f = "F3e" -> F3e [] f = "F3q" -> F3q [] f = "F3a" -> F3a [] f = "F4b" -> F4b [] f = "F3x" -> F3x [] f = "F2y" -> F2y [] f = "F2z" -> F2z [] f = "E" -> Empty

\* flavour: "p" = carries coefficient tables, "b" = bare, "n" = neutral (no atoms)
Flavour(f) == CASE f \in {"F1p","F2p","F3p","F4p","F3r","F3e","F3q","F3a"} -> "p" [] f = "E" -> "n" [] OTHER -> "b"

\* cells (rows are the cell vectors, lattice units); <<>> = no cell
CellOf(c) == CASE c = "none" -> <<>>
               [] c = "ortho" -> <<<<8,0,0>>,<<0,9,0>>,<<0,0,10>>>>
               [] c = "tri"   -> <<<<8,0,0>>,<<2,9,0>>,<<1,-3,10>>>>
               [] c = "trineg" -> <<<<8,0,0>>,<<-3,9,0>>,<<-2,2,10>>>>

\* Instance of fragment f introduced at step k: ids and positions made unique
Inst(f, k) == LET F == Frag(f)
              IN [F EXCEPT !.q = [i \in 1..Len(F.q) |-> 8 * k + i],
                           !.pos = [i \in 1..Len(F.pos) |-> <<F.pos[i][1], F.pos[i][2] + (k % 2) * 3, F.pos[i][3] + (k \div 2) * 3>>]]

\* a parameterised chain of n atoms (three elements in turn), bonds between neighbours (every third listed backwards, two
\* bond types), angles on consecutive triples; instance k has its own ids and its own row of positions
BigChain(n, k) ==
  LET B == Base("BC", <<"C","N","O">>, [i \in 1..n |-> (i - 1) % 3], [i \in 1..n |-> <<i, 20 + 2 * k, 7>>], [i \in 1..n |-> k], TRUE)
  IN [B EXCEPT !.q = [i \in 1..n |-> 200 * (k + 1) + i],
               !.bond = Terms("BC", "b", [i \in 1..(n - 1) |-> IF i % 3 = 0 THEN <<i, i - 1>> ELSE <<i - 1, i>>], [i \in 1..(n - 1) |-> i % 2], 2, TRUE),
               !.angle = Terms("BC", "n", [i \in 1..(n - 2) |-> <<i - 1, i, i + 1>>], [i \in 1..(n - 2) |-> 0], 1, TRUE)]
=============================================================================
