--------------------------- MODULE Trace_AtomsAbs ---------------------------
(***************************************************************************)
(* Trace validation for AtomsAbs.  The batch file holds observed           *)
(* transitions of the real mofun.Atoms:                                    *)
(*    [op, args..., pre (K), other (K), post (K), exc, ...]                *)
(* Each one is judged against the specification: the abstraction of the    *)
(* observed post-state must be the result the property-level operation     *)
(* gives on the abstraction of the observed pre-state.  A behaviour is a   *)
(* spec behaviour iff its Construct step and all its transitions are       *)
(* accepted (induction over the behaviour), so judging transitions one by  *)
(* one loses nothing and lets identical transitions be judged once.        *)
(*                                                                         *)
(* The verdict is total: Judge returns "ok" or the name of the first       *)
(* failing clause.                                                         *)
(***************************************************************************)
EXTENDS AtomsAbs, Json, IOUtils

Batch == JsonDeserialize(IOEnv.TRACE_FILE)

VARIABLES i, verdict
vars == <<i, verdict>>

MapOf(e) == \* e.map: collection of <<j0, key>>
  LET vals == Range(e.map)
  IN [j \in {v[1] + 1 : v \in vals} |-> (CHOOSE v \in vals : v[1] + 1 = j)[2]]

ShiftTy(T, off) == [T EXCEPT !.ty = [n \in DOMAIN T.ty |-> T.ty[n] + off]]

\* the other structure as the abstract value the operation is given
OtherA(e) ==
  IF e.mode = "auto" THEN AbsT(e.other, "new")
  ELSE \* ids are used with explicit offsets: for kinds without coefficient text the ids themselves are the meaning
    LET O == e.other
        O2 == [O EXCEPT !.bond = ShiftTy(O.bond, e.offs[2]), !.angle = ShiftTy(O.angle, e.offs[3]),
                        !.dihedral = ShiftTy(O.dihedral, e.offs[4]), !.improper = ShiftTy(O.improper, e.offs[5])]
        N == AbsT(e.other, "new")
        S == AbsT(O2, "o")
    IN [N EXCEPT !.terms = [k \in Kinds |-> IF Len(O[k].co) = 0 THEN S.terms[k] ELSE N.terms[k]]]

Expected(e, P) ==
  CASE e.op = "Construct"     -> AbsT(e.other, "o")
    [] e.op = "Extend"        -> ExtendA(P, OtherA(e), MapOf(e))
    [] e.op = "ExtendTypes"   -> P
    [] e.op = "ExtendShifted" -> ExtendA(P, ShiftedA(P, e.v), << >>)
    [] e.op = "Delete"        -> DeleteA(P, {<<kk[1], kk[2]>> : kk \in Range(e.keys)})
    [] e.op = "Pop"           -> PopA(P, e.i)
    [] e.op = "Replicate"     -> ReplicateA(P, e.dims)
    [] e.op = "Subset"        -> SubsetA(P, e.ixs)
    [] e.op = "Copy"          -> P

OrderFree(e) == e.op \in {"Replicate"}

\* Transitions recorded while the repository's own tests run (harness/testrecorder.py) carry the field `recorded`.
\* Their inputs were not chosen by the specification, so the domain of the property is checked here: representable
\* numbers, consistent structures on both sides, a consistent expected result (e.g. no two atoms with one identity),
\* and no exception (a test may provoke one on purpose).  Outside the domain the verdict is `blocked:`.
Recorded(e) == "recorded" \in DOMAIN e
DomainProblem(e) ==
  IF e.exc # "none" THEN "exception (the test may provoke it on purpose)"
  ELSE IF e.other.wf # "ok" \/ ~WFK(e.other) THEN "other structure not representable"
  ELSE IF ~ConsistentA(Abs(e.pre)) THEN "inconsistent structure"
  ELSE IF e.op \in {"Extend", "ExtendTypes"} /\ ~ConsistentA(AbsT(e.other, "new")) THEN "inconsistent other structure"
  ELSE IF e.op = "Extend" /\ \E v \in Range(e.map) : <<v[2][1], v[2][2]>> \notin Keys(Abs(e.pre)) \/ v[1] + 1 \notin 1..Len(e.other.q) THEN "identity map out of range"
  ELSE IF e.op = "Delete" /\ \E kk \in Range(e.keys) : <<kk[1], kk[2]>> \notin Keys(Abs(e.pre)) THEN "deleted atom unknown"
  ELSE IF e.op = "Pop" /\ (Len(e.pre.q) = 0 \/ e.i >= Len(e.pre.q) \/ e.i < -Len(e.pre.q)) THEN "index out of range"
  ELSE IF e.op = "Subset" /\ \E n \in DOMAIN e.ixs : e.ixs[n] \notin 0..(Len(e.pre.q) - 1) THEN "index out of range"
  ELSE IF e.op = "Replicate" /\ (e.pre.cell = <<>> \/ \E d \in 1..3 : e.dims[d] < 1) THEN "no cell"
  ELSE IF ~ConsistentA(Expected(e, Abs(e.pre))) THEN "expected result inconsistent (e.g. two atoms with one identity)"
  ELSE ""

Judge(e) ==
  IF e.pre.wf # "ok" \/ ~WFK(e.pre) THEN "blocked:pre-state-malformed"
  ELSE IF Recorded(e) /\ DomainProblem(e) # "" THEN "blocked:recorded call outside the property's domain: " \o DomainProblem(e)
  ELSE IF e.exc # "none" THEN "no-exception"
  ELSE IF e.wf # "ok" THEN "projection"
  ELSE IF ~WFK(e.post) THEN "one-entry-per-atom-and-term"
  ELSE
    LET P == IF e.op = "Construct" THEN EmptyA ELSE Abs(e.pre)
        X == Expected(e, P)
        Y == Abs(e.post)
        \* a subset: nothing is promised about terms or extra fields (an implementation may keep the terms among the
        \* selected atoms or none); they are left out of the comparison, the result must still be consistent
        Yc == IF e.op = "Subset" THEN [Y EXCEPT !.atoms = [n \in DOMAIN Y.atoms |-> [Y.atoms[n] EXCEPT !.xf = {}]],
                                               !.terms = [k \in Kinds |-> {}], !.cnt = [k \in Kinds |-> 0]] ELSE Y
        NX == NormA(X)
        NY == NormA(Yc)
    IN IF e.src_same # "yes" THEN "inputs-unmodified"
       ELSE IF Len(Yc.atoms) # Len(X.atoms) THEN "atom-count"
       ELSE IF (IF OrderFree(e) THEN SeqToBag(Yc.atoms) # SeqToBag(X.atoms) ELSE Yc.atoms # X.atoms)
            THEN (IF {Key(r) : r \in Range(Yc.atoms)} # {Key(r) : r \in Range(X.atoms)} THEN "atoms-identity"
                  ELSE IF SeqToBag(Yc.atoms) = SeqToBag(X.atoms) THEN "atoms-order"
                  ELSE IF \A r \in Range(Yc.atoms) : \E s \in Range(X.atoms) : Key(r) = Key(s) /\ r.ty = s.ty THEN "atoms-data"
                  ELSE "atoms-type-meaning")
       ELSE IF Yc.cnt["bond"] # Cardinality(Yc.terms["bond"]) \/ Yc.cnt["angle"] # Cardinality(Yc.terms["angle"])
               \/ Yc.cnt["dihedral"] # Cardinality(Yc.terms["dihedral"]) \/ Yc.cnt["improper"] # Cardinality(Yc.terms["improper"])
            THEN "term-listed-twice"
       ELSE IF NY.terms["bond"] # NX.terms["bond"] THEN "bonds"
       ELSE IF NY.terms["angle"] # NX.terms["angle"] THEN "angles"
       ELSE IF NY.terms["dihedral"] # NX.terms["dihedral"] THEN "dihedrals"
       ELSE IF NY.terms["improper"] # NX.terms["improper"] THEN "impropers"
       ELSE IF Yc.cell # X.cell THEN "cell"
       ELSE IF ~ConsistentA(Y) THEN "consistent"
       ELSE "ok"

\* (TLC's workers do not share the successors of one state; the harness shards the batch over several JVMs)
Init == i = 0 /\ verdict = "init"
Next == /\ i = 0
        /\ i' \in 1..Len(Batch)
        /\ verdict' = Judge(Batch[i'])
Spec == Init /\ [][Next]_vars

Report == (i > 0 /\ verdict # "ok") => PrintT(<<"REJECT", i, verdict>>)
=============================================================================
