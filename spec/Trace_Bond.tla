------------------------------ MODULE Trace_Bond ------------------------------
EXTENDS BondRule, Json, IOUtils
Batch == JsonDeserialize(IOEnv.TRACE_FILE)
VARIABLES i, verdict
vars == <<i, verdict>>
AsX(e) == [cell |-> e.cell, atoms |-> [a \in 1..Len(e.atoms) |-> [el |-> e.atoms[a].el, pos |-> <<e.atoms[a].pos[1], e.atoms[a].pos[2], e.atoms[a].pos[3]>>]]]
Init == i = 0 /\ verdict = "init"
Next == /\ i = 0 /\ i' \in 1..Len(Batch) /\ verdict' = IF Batch[i'].kind = "near" THEN JudgeNear(AsX(Batch[i']), Batch[i'].obs, Batch[i'].exc)
                                                              ELSE JudgeBonds(AsX(Batch[i']), Batch[i'].obs, Batch[i'].exc)
Spec == Init /\ [][Next]_vars
Report == (i > 0 /\ verdict # "ok") => PrintT(<<"REJECT", i, verdict>>)
=============================================================================
