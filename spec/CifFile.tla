------------------------------ MODULE CifFile ------------------------------
(***************************************************************************)
(* C15: P1 CIF files.                                                      *)
(*                                                                         *)
(* Structures are K-level values whose positions are *fractional            *)
(* numerators* in units of 1/80 of the cell vectors (1/80 = 0.0125 is exact  *)
(* at the four printed decimals); cell lengths / angles enter as integers   *)
(* in units of 1e-4.                                                       *)
(*                                                                         *)
(* Round trip (JudgeRoundTrip): F is the text written by mofun parsed by    *)
(* the harness's own CIF tokenizer, K2 the structure read back by mofun.    *)
(* Reading (JudgeRead): D is an abstract document rendered to CIF text by   *)
(* the harness; R is what mofun (and, for cell and positions, ASE) read.    *)
(***************************************************************************)
EXTENDS AtomsAbs

Mod80(x) == x % 80
ElOf(K, i) == TyMeaning(K, K.ty[i]).el
\* generated unique labels: element + running count per element
LabelOf(K, i) == ElOf(K, i) \o ToString(Cardinality({j \in 1..i : ElOf(K, j) = ElOf(K, i)}))

Torsions(K) == K.dihedral.ix \o K.improper.ix

\* per-row sets of <<label, value>> (column order is not meaning)
XfSeq(labels, rows) == [r \in 1..Len(rows) |-> {<<labels[c], rows[r][c]>> : c \in 1..Len(labels)}]
XCols(labels, rows, n) == [c \in 1..Len(labels) |-> [r \in 1..n |-> rows[r][c]]]

JudgeRoundTrip(e) ==
  LET K == e.K   F == e.F   K2 == e.K2   n == Len(K.q)
      \* site labels: any scheme, as long as every atom has its own (the loops below refer to atoms through them);
      \* the library's scheme is element + running count per element (LabelOf), which is not demanded
      lab == F.atom_labels
      lb(k, m, p) == lab[K[k].ix[m][p] + 1]
      tors == Torsions(K)
  IN IF e.exc # "none" THEN "no-exception"
     ELSE IF F.spacegroup \notin {"P 1", "P1"} THEN "space-group-P1"
     ELSE IF F.cellpar # e.cellpar THEN "cell-lengths-and-angles"
     ELSE IF Len(F.atom_labels) # n \/ \E i, j \in 1..Len(F.atom_labels) : i # j /\ F.atom_labels[i] = F.atom_labels[j] THEN "atom-labels-unique-in-order"
     ELSE IF F.atom_symbols # [i \in 1..n |-> ElOf(K, i)] THEN "elements-and-order"
     ELSE IF F.coordkind # (IF e.out = "cart" THEN "cartn" ELSE "fract") THEN "coordinate-kind"
     ELSE IF e.out = "fract" /\ F.coords # [i \in 1..n |-> <<K.pos[i][1] * 125, K.pos[i][2] * 125, K.pos[i][3] * 125>>] THEN "fractional-coordinates"
     \* Cartesian output is only generated for the orthorhombic cell 8 x 10 x 16: x = n/80 * 8 etc., in units of 1e-4
     ELSE IF e.out = "cart" /\ F.coords # [i \in 1..n |-> <<K.pos[i][1] * 1000, K.pos[i][2] * 1250, K.pos[i][3] * 2000>>] THEN "cartesian-coordinates"
     ELSE IF F.charges # [i \in 1..n |-> K.q[i] * 15625] THEN "charges"
     ELSE IF F.atom_extra_labels # K.xal \/ F.atom_extra # XCols(K.xal, K.xa, n) THEN "extra-atom-columns"
     ELSE IF F.bonds # [m \in 1..Len(K.bond.ix) |-> <<lb("bond", m, 1), lb("bond", m, 2)>>] THEN "bond-loop"
     ELSE IF F.bond_extra_labels # (IF Len(K.bond.ix) > 0 THEN K.bond.xl ELSE <<>>)
             \/ (Len(K.bond.ix) > 0 /\ F.bond_extra # XCols(K.bond.xl, K.bond.xf, Len(K.bond.ix))) THEN "extra-bond-columns"
     ELSE IF F.angles # [m \in 1..Len(K.angle.ix) |-> <<lb("angle", m, 1), lb("angle", m, 2), lb("angle", m, 3)>>] THEN "angle-loop"
     ELSE IF F.torsions # [m \in 1..Len(tors) |-> [p \in 1..4 |-> lab[tors[m][p] + 1]]] THEN "torsion-loop-dihedrals-then-impropers"
     \* ---- read back ----
     ELSE IF K2.wf # "ok" THEN "reread-projection"
     ELSE IF Len(K2.q) # n THEN "reread-atom-count"
     ELSE IF [i \in 1..n |-> ElOf(K2, i)] # [i \in 1..n |-> ElOf(K, i)] THEN "reread-elements-and-order"
     ELSE IF [i \in 1..n |-> <<Mod80(K2.pos[i][1]), Mod80(K2.pos[i][2]), Mod80(K2.pos[i][3])>>] #
             [i \in 1..n |-> <<Mod80(K.pos[i][1]), Mod80(K.pos[i][2]), Mod80(K.pos[i][3])>>] THEN "reread-fractional-coordinates-modulo-1"
     ELSE IF e.out = "fract" /\ \E i \in 1..n : \E d \in 1..3 : K2.pos[i][d] < 0 \/ K2.pos[i][d] >= 80 THEN "reread-wrapped-into-cell"
     ELSE IF e.out = "cart" /\ K2.pos # K.pos THEN "reread-cartesian-coordinates"
     ELSE IF e.cellpar2 # e.cellpar THEN "reread-cell"
     ELSE IF K2.q # K.q THEN "reread-charges"
     ELSE IF K2.bond.ix # K.bond.ix THEN "reread-bonds"
     ELSE IF K2.angle.ix # K.angle.ix THEN "reread-angles"
     ELSE IF K2.dihedral.ix # tors THEN "reread-torsions"
     ELSE IF XfSeq(K2.xal, K2.xa) # XfSeq(K.xal, K.xa) THEN "reread-extra-atom-columns"
     ELSE IF Len(K.bond.ix) > 0 /\ XfSeq(K2.bond.xl, K2.bond.xf) # XfSeq(K.bond.xl, K.bond.xf) THEN "reread-extra-bond-columns"
     ELSE IF Len(K.angle.ix) > 0 /\ XfSeq(K2.angle.xl, K2.angle.xf) # XfSeq(K.angle.xl, K.angle.xf) THEN "reread-extra-angle-columns"
     ELSE IF e.stable # "yes" THEN "rewrite-identical-text"
     ELSE IF e.ase # "yes" THEN "independent-reader-agrees-on-cell-and-positions"
     ELSE "ok"

---------------------------------------------------------------------------
(* Reader-only documents: D = [sg (space group name or "absent"), cart      *)
(* ("yes"/"no"), atoms |-> Seq([label, el, c (three coordinate tokens with  *)
(* exact value num in units of 1/80 (fractional) or 1e-4 (Cartesian))]),     *)
(* bonds |-> Seq(<<label, label>>)].                                        *)
IsP1(sg) == sg \in {"absent", "P1", "P 1"}

JudgeRead(e) ==
  LET D == e.D   R == e.R   n == Len(D.atoms)
      idx(l) == (CHOOSE i \in 1..n : D.atoms[i].label = l) - 1
  IN IF ~IsP1(D.sg) THEN (IF R.exc # "none" THEN "ok" ELSE "non-P1-space-group-rejected")
     ELSE IF R.exc # "none" THEN "no-exception"
     ELSE IF R.wf # "ok" THEN "coordinates"
     ELSE IF R.els # [i \in 1..n |-> D.atoms[i].el] THEN "elements-and-order"
     ELSE IF D.cart = "no" /\ R.pos # [i \in 1..n |-> <<Mod80(D.atoms[i].c[1]), Mod80(D.atoms[i].c[2]), Mod80(D.atoms[i].c[3])>>]
          THEN "fractional-coordinates-wrapped-into-cell"
     ELSE IF D.cart = "yes" /\ R.pos # [i \in 1..n |-> D.atoms[i].c] THEN "cartesian-coordinates"
     ELSE IF R.bonds # [m \in 1..Len(D.bonds) |-> <<idx(D.bonds[m][1]), idx(D.bonds[m][2])>>] THEN "bonds-join-labelled-atoms"
     ELSE IF R.ase # "yes" THEN "independent-reader-agrees-on-cell-and-positions"
     ELSE "ok"
=============================================================================
