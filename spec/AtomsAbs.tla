----------------------------- MODULE AtomsAbs -----------------------------
(***************************************************************************)
(* Property-level specification of mofun's Atoms object (C09-C12, and the  *)
(* bookkeeping half of C04/C06/C07).                                        *)
(*                                                                         *)
(* Two levels of value appear here.                                        *)
(*                                                                         *)
(*  K-level ("concrete projection"): a mechanical dump of the public       *)
(*  arrays of a mofun.Atoms object - per-atom arrays, type tables, term    *)
(*  index arrays with raw type ids - with every number an integer          *)
(*  (lattice units, 1/64 charge units, micro mass units).  The harness     *)
(*  produces K-values from real objects and renders K-values emitted by    *)
(*  TLC into real objects; it never interprets them.                       *)
(*                                                                         *)
(*  A-level ("abstract Atoms"): what the properties talk about.  Every     *)
(*  atom is a row identified by the key <<id, pos>> (id is carried by the   *)
(*  atom's charge), carrying the *meaning* of its type (element, label,    *)
(*  mass, pair coefficient text); every term is a tuple of atom keys with  *)
(*  the coefficient text its type id resolves to.  Abs(K) is defined here, *)
(*  in TLA+, so resolution of ids through tables is decided by TLC.        *)
(*                                                                         *)
(* The operations are defined on A-values by what the property says must   *)
(* happen to rows and terms, never by index arithmetic.                    *)
(***************************************************************************)
EXTENDS Integers, Sequences, FiniteSets, TLC

Kinds == {"bond", "angle", "dihedral", "improper"}
Arity(k) == CASE k = "bond" -> 2 [] k = "angle" -> 3 [] OTHER -> 4

Rev(s) == [i \in 1..Len(s) |-> s[Len(s) + 1 - i]]
Range(f) == {f[x] : x \in DOMAIN f}
Min(S) == CHOOSE x \in S : \A y \in S : x <= y

---------------------------------------------------------------------------
(* Ordering of atom keys <<id, <<x,y,z>>>>, used only to pick a canonical   *)
(* direction for bonds, angles and dihedrals (a term listed backwards is    *)
(* the same term).                                                         *)
PosLess(p, r) == \/ p[1] < r[1]
                 \/ p[1] = r[1] /\ p[2] < r[2]
                 \/ p[1] = r[1] /\ p[2] = r[2] /\ p[3] < r[3]
KeyLess(a, b) == a[1] < b[1] \/ (a[1] = b[1] /\ PosLess(a[2], b[2]))
SeqLess(s, r) == \* lexicographic, s and r of equal length
  LET D == {i \in 1..Len(s) : s[i] # r[i]}
  IN  D # {} /\ KeyLess(s[Min(D)], r[Min(D)])
Canon(k, s) == IF k = "improper" THEN s
               ELSE IF SeqLess(Rev(s), s) THEN Rev(s) ELSE s

---------------------------------------------------------------------------
(* K-level well-formedness: exactly the "one entry per atom / per term"     *)
(* half of C09.  Everything else about K is judged through Abs.            *)
WFK(K) ==
  /\ Len(K.ty) = Len(K.q) /\ Len(K.grp) = Len(K.q) /\ Len(K.pos) = Len(K.q)
  /\ Len(K.xa) = Len(K.q)
  /\ \A i \in 1..Len(K.xa) : Len(K.xa[i]) = Len(K.xal)
  /\ Len(K.tlab) = Len(K.tel) /\ Len(K.tmass) = Len(K.tel)
  /\ \A k \in Kinds :
       /\ Len(K[k].ty) = Len(K[k].ix)
       /\ Len(K[k].xf) = Len(K[k].ix)
       /\ \A n \in 1..Len(K[k].ix) : /\ Len(K[k].ix[n]) = Arity(k)
                                     /\ Len(K[k].xf[n]) = Len(K[k].xl)

XfSet(labels, vals) ==
  {<<labels[c], vals[c]>> : c \in {c \in DOMAIN labels : vals[c] # "."}}

TyMeaning(K, t) ==
  IF t >= 0 /\ t < Len(K.tel)
  THEN [el |-> K.tel[t+1], lab |-> K.tlab[t+1], mass |-> K.tmass[t+1],
        pc |-> IF Len(K.tpc) = 0 THEN "none"
               ELSE IF t < Len(K.tpc) THEN K.tpc[t+1] ELSE "BAD:pair-coeff-missing"]
  ELSE [el |-> "BAD:type-out-of-range", lab |-> "BAD", mass |-> -1, pc |-> "BAD"]

RowOf(K, i) == [id |-> K.q[i], pos |-> K.pos[i], grp |-> K.grp[i],
                ty |-> TyMeaning(K, K.ty[i]), xf |-> XfSet(K.xal, K.xa[i])]

KeyAt(K, i0) == IF i0 >= 0 /\ i0 < Len(K.q) THEN <<K.q[i0+1], K.pos[i0+1]>>
                ELSE <<-1, <<0, 0, 0>>>>             \* dangling index

\* cot: coefficient text; "#<tag>" when the kind has no coefficient table (then only
\* the partition of terms into types is meaningful, see NormTerms).
CoOf(T, t, tag) == IF Len(T.co) = 0 THEN "#" \o tag \o "." \o ToString(t)
                   ELSE IF t >= 0 /\ t < Len(T.co) THEN T.co[t+1]
                   ELSE "BAD:coeff-missing"

TermOf(K, k, n, tag) ==
  [a   |-> Canon(k, [p \in 1..Arity(k) |-> KeyAt(K, K[k].ix[n][p])]),
   cot |-> CoOf(K[k], K[k].ty[n], tag),
   xf  |-> XfSet(K[k].xl, K[k].xf[n])]

AbsT(K, tag) ==
  [atoms |-> [i \in 1..Len(K.q) |-> RowOf(K, i)],
   terms |-> [k \in Kinds |-> {TermOf(K, k, n, tag) : n \in 1..Len(K[k].ix)}],
   cnt   |-> [k \in Kinds |-> Len(K[k].ix)],
   cell  |-> K.cell]
Abs(K) == AbsT(K, "o")

---------------------------------------------------------------------------
(* A-level helpers                                                         *)
Key(r) == <<r.id, r.pos>>
Keys(A) == {Key(A.atoms[i]) : i \in DOMAIN A.atoms}
TermAtoms(t) == Range(t.a)
SameAtoms(k, t, n) == t.a = n.a \/ t.a = Rev(n.a)    \* forwards or backwards

(* Terms of a kind without coefficient table carry no text; what is        *)
(* observable is which terms share a type.  Replace the symbolic tag by    *)
(* the class of term atom-tuples sharing it.                               *)
IsId(t) == Len(t.cot) > 0 /\ SubSeq(t.cot, 1, 1) = "#"
NormTerms(S) ==
  {[a |-> t.a, xf |-> t.xf,
    cot |-> IF IsId(t) THEN "#" ELSE t.cot,
    cls |-> IF IsId(t) THEN {u.a : u \in {u \in S : u.cot = t.cot}} ELSE {}] : t \in S}

NormA(A) == [atoms |-> A.atoms, cnt |-> A.cnt, cell |-> A.cell,
             terms |-> [k \in Kinds |-> NormTerms(A.terms[k])]]

SeqToBag(s) == [x \in Range(s) |-> Cardinality({i \in DOMAIN s : s[i] = x})]
\* same as NormA but atom order forgotten (replication, replacement)
NormBag(A) == [atoms |-> SeqToBag(A.atoms), cnt |-> A.cnt, cell |-> A.cell,
               terms |-> [k \in Kinds |-> NormTerms(A.terms[k])]]

(* Consistency of an abstract object (C09): keys identify atoms, every     *)
(* term refers to existing atoms, no term is present twice (cnt counts the *)
(* stored rows, the set collapses duplicates), no BAD resolution.          *)
ConsistentA(A) ==
  /\ \A i, j \in DOMAIN A.atoms : i # j => Key(A.atoms[i]) # Key(A.atoms[j])
  /\ \A i \in DOMAIN A.atoms :
        /\ A.atoms[i].ty.mass >= 0
        /\ A.atoms[i].ty.pc # "BAD:pair-coeff-missing"
  /\ \A k \in Kinds :
        /\ A.cnt[k] = Cardinality(A.terms[k])
        /\ \A t \in A.terms[k] : /\ TermAtoms(t) \subseteq Keys(A)
                                 /\ Cardinality(TermAtoms(t)) = Arity(k)
                                 /\ t.cot # "BAD:coeff-missing"
        /\ \A t, u \in A.terms[k] : t # u => ~SameAtoms(k, t, u)
  \* pair coefficients: all atoms have them or none has
  /\ \A i, j \in DOMAIN A.atoms : (A.atoms[i].ty.pc = "none") = (A.atoms[j].ty.pc = "none")

EmptyA == [atoms |-> <<>>, terms |-> [k \in Kinds |-> {}], cnt |-> [k \in Kinds |-> 0], cell |-> <<>>]

---------------------------------------------------------------------------
(* Operations, as functions on A-values.                                   *)

\* Delete: S is a non-empty set of keys of A
DeleteA(A, S) ==
  LET keep(k) == {t \in A.terms[k] : TermAtoms(t) \cap S = {}}
  IN [atoms |-> SelectSeq(A.atoms, LAMBDA r : Key(r) \notin S),
      terms |-> [k \in Kinds |-> keep(k)],
      cnt   |-> [k \in Kinds |-> Cardinality(keep(k))],
      cell  |-> A.cell]

\* Pop: python index i in -n..n-1
PopA(A, i) ==
  LET n == Len(A.atoms)
      j == IF i < 0 THEN n + i + 1 ELSE i + 1
  IN DeleteA(A, {Key(A.atoms[j])})

\* Extend: F is the A-value of the other structure; map is a function from a
\* subset of DOMAIN F.atoms to keys of A (atoms declared identical).
ExtendA(A, F, map) ==
  LET mapped  == DOMAIN map
      newkey(j) == IF j \in mapped THEN map[j] ELSE Key(F.atoms[j])
      fkey2new == [kk \in {Key(F.atoms[j]) : j \in DOMAIN F.atoms} |->
                     newkey(CHOOSE j \in DOMAIN F.atoms : Key(F.atoms[j]) = kk)]
      adopt(r) == IF \E j \in mapped : map[j] = Key(r)
                  THEN LET j == CHOOSE j \in mapped : map[j] = Key(r)
                       IN [r EXCEPT !.ty = F.atoms[j].ty, !.xf = F.atoms[j].xf]
                  ELSE r
      fresh  == SelectSeq([j \in DOMAIN F.atoms |-> [r |-> F.atoms[j], j |-> j]],
                          LAMBDA e : e.j \notin mapped)
      added(k) == {[a |-> Canon(k, [p \in 1..Arity(k) |-> fkey2new[t.a[p]]]), cot |-> t.cot, xf |-> t.xf]
                     : t \in F.terms[k]}
      kept(k)  == {t \in A.terms[k] : ~\E n \in added(k) : SameAtoms(k, t, n)}
      all(k)   == kept(k) \cup added(k)
  IN [atoms |-> [i \in DOMAIN A.atoms |-> adopt(A.atoms[i])] \o [i \in DOMAIN fresh |-> fresh[i].r],
      terms |-> [k \in Kinds |-> all(k)],
      cnt   |-> [k \in Kinds |-> Cardinality(all(k))],
      cell  |-> A.cell]

\* integer vectors / cells (rows are cell vectors)
VAdd(p, r) == <<p[1] + r[1], p[2] + r[2], p[3] + r[3]>>
VScale(c, p) == <<c * p[1], c * p[2], c * p[3]>>
LatVec(cell, n) == VAdd(VAdd(VScale(n[1], cell[1]), VScale(n[2], cell[2])), VScale(n[3], cell[3]))

ShiftRow(r, v) == [r EXCEPT !.pos = VAdd(r.pos, v)]
ShiftKey(kk, v) == <<kk[1], VAdd(kk[2], v)>>
ShiftTerm(k, t, v) == [t EXCEPT !.a = Canon(k, [p \in 1..Arity(k) |-> ShiftKey(t.a[p], v)])]

\* the structure translated by v (same types, same type ids)
ShiftedA(A, v) ==
  [atoms |-> [i \in DOMAIN A.atoms |-> ShiftRow(A.atoms[i], v)],
   terms |-> [k \in Kinds |-> {ShiftTerm(k, t, v) : t \in A.terms[k]}],
   cnt   |-> A.cnt, cell |-> A.cell]

Images(dims) == {<<i, j, k>> : i \in 0..(dims[1]-1), j \in 0..(dims[2]-1), k \in 0..(dims[3]-1)}

\* Replicate: the *set* of rows and terms is fixed by the property, the order of atoms is not.
\* We list images in the order of Images' enumeration only to have a value; comparisons use NormBag.
ImageSeq(dims) == LET S == Images(dims)
                      RECURSIVE ToSeq(_)
                      ToSeq(T) == IF T = {} THEN <<>> ELSE LET x == CHOOSE x \in T : TRUE IN <<x>> \o ToSeq(T \ {x})
                  IN ToSeq(S)
RECURSIVE ConcatAll(_)
ConcatAll(ss) == IF ss = <<>> THEN <<>> ELSE Head(ss) \o ConcatAll(Tail(ss))

ReplicateA(A, dims) ==
  LET imgs == ImageSeq(dims)
      sh(n) == ShiftedA(A, LatVec(A.cell, n))
      tm(k) == UNION {sh(n).terms[k] : n \in Images(dims)}
  IN [atoms |-> ConcatAll([m \in DOMAIN imgs |-> sh(imgs[m]).atoms]),
      terms |-> [k \in Kinds |-> tm(k)],
      cnt   |-> [k \in Kinds |-> Cardinality(tm(k))],
      cell  |-> <<VScale(dims[1], A.cell[1]), VScale(dims[2], A.cell[2]), VScale(dims[3], A.cell[3])>>]

\* Subset (atoms[i] / atoms[[i, j]]): the listed atoms, in listed order, with their meaning;
\* the property promises nothing about terms or extra fields of a subset.
SubsetA(A, ixs) ==
  [atoms |-> [n \in DOMAIN ixs |-> [A.atoms[ixs[n] + 1] EXCEPT !.xf = {}]],
   terms |-> [k \in Kinds |-> {}], cnt |-> [k \in Kinds |-> 0], cell |-> A.cell]

=============================================================================
