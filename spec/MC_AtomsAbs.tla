----------------------------- MODULE MC_AtomsAbs -----------------------------
(***************************************************************************)
(* State machine over AtomsAbs: every bounded history of public Atoms      *)
(* operations starting from a library fragment.  Used                      *)
(*  (1) to model-check the property-level invariants and the action        *)
(*      properties DeleteExact / ExtendExact / ReplicateExact on the spec, *)
(*  (2) to generate behaviours (one per distinct reachable state) that the *)
(*      harness replays into the real mofun.Atoms.                         *)
(***************************************************************************)
EXTENDS AtomsAbs, Frags, Json

CONSTANTS InitFrags,     \* fragments a history may start from
          ExtFrags,      \* fragments a history may extend with
          InitCells,     \* cells given to the initial structure
          MaxAtoms, MaxDepth, MaxMap, MaxDel,
          Dims,          \* replication triples
          Emit,          \* TRUE: print one behaviour per distinct state
          EmitOps        \* ... whose last operation is in this set

VARIABLES obj,    \* abstract Atoms (A-level)
          flav,   \* "p" | "b" | "n": does the object carry coefficient tables
          held,   \* function frag name -> step at which extend_types(frag) was called
          step,   \* number of operations so far
          last,   \* the last operation (for action properties)
          hist    \* the behaviour so far (excluded from the VIEW)

vars == <<obj, flav, held, step, last, hist>>
view == <<obj, flav, held, step, last>>   \* distinct states = distinct transitions (last carries the pre-state)

FragA(f, k) == AbsT(Inst(f, k), ToString(k))

Compatible(fl, f) == fl = "n" \/ Flavour(f) = "n" \/ fl = Flavour(f)
Join(fl, f) == IF fl = "n" THEN Flavour(f) ELSE fl

Init ==
  \E f \in InitFrags, c \in InitCells :
    /\ obj = [FragA(f, 0) EXCEPT !.cell = CellOf(c)]
    /\ flav = Flavour(f)
    /\ held = << >>
    /\ step = 0
    /\ last = [op |-> "Construct", pre |-> EmptyA]
    /\ hist = <<[op |-> "Construct", frag |-> f, cell |-> c]>>

\* all injective partial maps of size <= MaxMap from fragment atom indices to keys of obj
Maps(F, A) ==
  LET D == DOMAIN F.atoms
      KS == Keys(A)
  IN {m \in UNION {[S -> KS] : S \in {S \in SUBSET D : Cardinality(S) <= MaxMap}} :
        \A i, j \in DOMAIN m : i # j => m[i] # m[j]}

\* the identity overlay: F is laid over an earlier, still complete instance k0 of the same fragment
Overlay(f, A) ==
  LET g == OverlayBase(f)
  IN {[j \in DOMAIN Frag(f).q |-> Key(FragA(g, k0).atoms[j])] :
        k0 \in {k0 \in 0..step : \A j \in DOMAIN Frag(g).q : Key(FragA(g, k0).atoms[j]) \in Keys(A)}}

DoExtend(f, m, mode) ==
  LET k == step + 1
      F == IF mode = "held" THEN AbsT(Inst(f, k), ToString(held[f])) ELSE FragA(f, k)
  IN /\ Len(obj.atoms) + Len(F.atoms) - Cardinality(DOMAIN m) <= MaxAtoms
     /\ obj' = ExtendA(obj, F, m)
     /\ flav' = Join(flav, f)
     /\ last' = [op |-> "Extend", pre |-> obj, f |-> F, m |-> m]
     /\ hist' = Append(hist, [op |-> "Extend", frag |-> f, k |-> k, mode |-> mode,
                              map |-> [j \in DOMAIN m |-> <<j - 1, m[j]>>]])

Extend ==
  \E f \in ExtFrags :
    /\ Compatible(flav, f)
    /\ \E mode \in {"auto"} \cup (IF f \in DOMAIN held THEN {"held"} ELSE {}) :
       \E m \in Maps(FragA(f, step + 1), obj) \cup Overlay(f, obj) :
         DoExtend(f, m, mode)
    /\ UNCHANGED held

ExtendTypes ==
  \E f \in ExtFrags :
    /\ Compatible(flav, f) /\ f \notin DOMAIN held /\ f # "E"
    /\ held' = [g \in DOMAIN held \cup {f} |-> IF g = f THEN step + 1 ELSE held[g]]
    /\ flav' = Join(flav, f)
    /\ obj' = obj
    /\ last' = [op |-> "ExtendTypes", pre |-> obj, f |-> f]
    /\ hist' = Append(hist, [op |-> "ExtendTypes", frag |-> f, k |-> step + 1])

\* extend by a translated copy of the object itself with ids declared as already shared
ExtendShifted ==
  \E v \in {<<0, 0, 5>>, <<4, 0, 0>>} :
    /\ Len(obj.atoms) > 0 /\ 2 * Len(obj.atoms) <= MaxAtoms
    /\ Keys(ShiftedA(obj, v)) \cap Keys(obj) = {}
    /\ obj' = ExtendA(obj, ShiftedA(obj, v), << >>)
    /\ last' = [op |-> "ExtendShifted", pre |-> obj, v |-> v]
    /\ hist' = Append(hist, [op |-> "ExtendShifted", v |-> v])
    /\ UNCHANGED <<flav, held>>

Delete ==
  \E S \in SUBSET Keys(obj) :
    /\ S # {} /\ Cardinality(S) <= MaxDel
    /\ obj' = DeleteA(obj, S)
    /\ last' = [op |-> "Delete", pre |-> obj, S |-> S]
    /\ hist' = Append(hist, [op |-> "Delete", keys |-> S])
    /\ UNCHANGED <<flav, held>>

Pop ==
  \E i \in {-1, 0, -2} :
    /\ Len(obj.atoms) >= 2
    /\ obj' = PopA(obj, i)
    /\ last' = [op |-> "Pop", pre |-> obj, i |-> i]
    /\ hist' = Append(hist, [op |-> "Pop", i |-> i])
    /\ UNCHANGED <<flav, held>>

Replicate ==
  \E d \in Dims :
    /\ obj.cell # <<>> /\ Len(obj.atoms) > 0
    /\ Len(obj.atoms) * d[1] * d[2] * d[3] <= MaxAtoms
    /\ obj' = ReplicateA(obj, d)
    /\ last' = [op |-> "Replicate", pre |-> obj, d |-> d]
    /\ hist' = Append(hist, [op |-> "Replicate", dims |-> d])
    /\ UNCHANGED <<flav, held>>

Subset ==
  \E ixs \in {<<0>>, <<1, 0>>} :
    /\ Len(obj.atoms) >= 2
    /\ obj' = SubsetA(obj, ixs)
    /\ last' = [op |-> "Subset", pre |-> obj, ixs |-> ixs]
    /\ hist' = Append(hist, [op |-> "Subset", ixs |-> ixs])
    /\ held' = << >>            \* a subset is a new object without the term tables: offsets handed out earlier do not apply to it
    /\ UNCHANGED flav

Copy ==
    /\ Len(obj.atoms) >= 1
    /\ obj' = obj
    /\ last' = [op |-> "Copy", pre |-> obj]
    /\ hist' = Append(hist, [op |-> "Copy"])
    /\ UNCHANGED <<flav, held>>

Tick == step < MaxDepth /\ step' = step + 1
AExtend == Tick /\ Extend
AExtendTypes == Tick /\ ExtendTypes
AExtendShifted == Tick /\ ExtendShifted
ADelete == Tick /\ Delete
APop == Tick /\ Pop
AReplicate == Tick /\ Replicate
ASubset == Tick /\ Subset
ACopy == Tick /\ Copy
Next == AExtend \/ AExtendTypes \/ AExtendShifted \/ ADelete \/ APop \/ AReplicate \/ ASubset \/ ACopy

Spec == Init /\ [][Next]_vars

---------------------------------------------------------------------------
(* Invariants of the specification itself                                  *)
MixedPair == \E i, j \in DOMAIN obj.atoms : (obj.atoms[i].ty.pc = "none") # (obj.atoms[j].ty.pc = "none")
InvConsistent == ConsistentA(obj) \/ MixedPair

(* Action properties, stated on what an observer of keys may see change,   *)
(* independently of the constructive definitions in AtomsAbs.              *)
RowsByKey(A) == [kk \in Keys(A) |-> CHOOSE r \in Range(A.atoms) : Key(r) = kk]
IsSubseq(s, t) == \* s is t with some elements removed
  \E f \in [DOMAIN s -> DOMAIN t] : /\ \A i, j \in DOMAIN s : i < j => f[i] < f[j]
                                   /\ \A i \in DOMAIN s : s[i] = t[f[i]]

DeleteExact ==
  [][ last'.op \in {"Delete", "Pop"} =>
        LET S == Keys(obj) \ Keys(obj')
        IN /\ (last'.op = "Delete" => S = last'.S)
           /\ (last'.op = "Pop" => Cardinality(S) = 1)
           /\ Keys(obj') \subseteq Keys(obj)
           /\ Len(obj'.atoms) = Len(obj.atoms) - Cardinality(S)
           /\ \A i \in DOMAIN obj'.atoms : obj'.atoms[i] \in Range(obj.atoms)          \* data kept
           /\ \A i, j \in DOMAIN obj.atoms :                                            \* relative order kept
                 (i < j /\ Key(obj.atoms[i]) \notin S /\ Key(obj.atoms[j]) \notin S) =>
                   \E a, b \in DOMAIN obj'.atoms : a < b /\ obj'.atoms[a] = obj.atoms[i] /\ obj'.atoms[b] = obj.atoms[j]
           /\ \A k \in Kinds : obj'.terms[k] = {t \in obj.terms[k] : TermAtoms(t) \cap S = {}}
  ]_vars

ExtendExact ==
  [][ last'.op = "Extend" =>
        LET F == last'.f
            m == last'.m
            n == Len(obj.atoms)
        IN /\ Len(obj'.atoms) = n + Len(F.atoms) - Cardinality(DOMAIN m)
           \* existing atoms stay in place; only type and extra fields may change, only if mapped
           /\ \A i \in 1..n : /\ Key(obj'.atoms[i]) = Key(obj.atoms[i])
                              /\ obj'.atoms[i].grp = obj.atoms[i].grp
                              /\ (Key(obj.atoms[i]) \notin Range(m) => obj'.atoms[i] = obj.atoms[i])
           /\ \A j \in DOMAIN m : \E i \in 1..n : /\ Key(obj.atoms[i]) = m[j]
                                                  /\ obj'.atoms[i].ty = F.atoms[j].ty
                                                  /\ obj'.atoms[i].xf = F.atoms[j].xf
           \* appended atoms: the unmapped ones, in order, unchanged
           /\ SubSeq(obj'.atoms, n + 1, Len(obj'.atoms)) =
                 SelectSeq(F.atoms, LAMBDA r : \A j \in DOMAIN m : Key(F.atoms[j]) # Key(r))
           \* every fragment term exactly once, with the fragment's coefficient text
           /\ \A k \in Kinds :
                /\ \A t \in obj.terms[k] : t \in obj'.terms[k] \/ \E u \in obj'.terms[k] : SameAtoms(k, t, u)
                /\ Cardinality(obj'.terms[k]) <= Cardinality(obj.terms[k]) + Cardinality(F.terms[k])
                /\ \A u \in F.terms[k] : \E t \in obj'.terms[k] : t.cot = u.cot /\ t.xf = u.xf
  ]_vars

ReplicateExact ==
  [][ last'.op = "Replicate" =>
        LET d == last'.d
            vol == d[1] * d[2] * d[3]
        IN /\ Len(obj'.atoms) = vol * Len(obj.atoms)
           /\ \A i \in DOMAIN obj.atoms : \A n \in Images(d) :
                Cardinality({j \in DOMAIN obj'.atoms :
                               obj'.atoms[j] = ShiftRow(obj.atoms[i], LatVec(obj.cell, n))}) = 1
           /\ \A k \in Kinds : Cardinality(obj'.terms[k]) = vol * Cardinality(obj.terms[k])
           /\ (d = <<1, 1, 1>> => obj' = obj)
  ]_vars

---------------------------------------------------------------------------
DimsQuick == {<<1,1,1>>, <<2,1,1>>, <<1,1,2>>}
DimsMid == {<<1,1,1>>, <<2,1,1>>, <<1,1,2>>, <<1,2,1>>, <<2,1,3>>}
DimsThorough == {<<1,1,1>>, <<2,1,1>>, <<1,2,1>>, <<1,1,2>>, <<2,1,3>>, <<1,3,2>>, <<2,2,1>>}

(* Emission: one JSON line per distinct state; the harness replays it.     *)
Expand(h) ==
  [i \in DOMAIN h |->
     IF h[i].op = "Construct" THEN [op |-> "Construct", k |-> 0, other |-> [Inst(h[i].frag, 0) EXCEPT !.cell = CellOf(h[i].cell)], frag |-> h[i].frag]
     ELSE IF h[i].op = "Extend" THEN [op |-> "Extend", k |-> h[i].k, frag |-> h[i].frag, mode |-> h[i].mode,
                                       map |-> h[i].map, other |-> Inst(h[i].frag, h[i].k)]
     ELSE IF h[i].op = "ExtendTypes" THEN [op |-> "ExtendTypes", k |-> h[i].k, frag |-> h[i].frag, other |-> Inst(h[i].frag, h[i].k)]
     ELSE h[i]]

EmitInv == (Emit /\ last.op \in EmitOps) => PrintT(<<"BEHAVIOUR", ToJson(Expand(hist))>>)
=============================================================================
