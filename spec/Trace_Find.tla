----------------------------- MODULE Trace_Find -----------------------------
(***************************************************************************)
(* Trace validation for pattern searches.  Each batch entry is one observed *)
(* call of mofun.find_pattern_in_structure on a rendered lattice crystal:   *)
(*   [kind, cell, atoms, pat, ans, exc, rotbound, dims, rcell, ratoms]       *)
(* kind = "find": ans must be an allowed answer for (crystal, pattern).     *)
(* kind = "replicated": the search ran on Atoms.replicate(dims) of the      *)
(*   crystal; the observed supercell (rcell, ratoms) must be the supercell  *)
(*   of the spec, ans an allowed answer for it, and the number of matches   *)
(*   a*b*c times the number of occurrences in the unit cell (C03).          *)
(***************************************************************************)
EXTENDS Find, Json, IOUtils

Batch == JsonDeserialize(IOEnv.TRACE_FILE)
VARIABLES i, verdict
vars == <<i, verdict>>

AsAtoms(s) == [a \in 1..Len(s) |-> [el |-> s[a].el, pos |-> <<s[a].pos[1], s[a].pos[2], s[a].pos[3]>>]]
AsCell(c) == <<<<c[1][1], c[1][2], c[1][3]>>, <<c[2][1], c[2][2], c[2][3]>>, <<c[3][1], c[3][2], c[3][3]>>>>

Judge(e) ==
  LET X == [cell |-> AsCell(e.cell), atoms |-> AsAtoms(e.atoms)]
      P == AsAtoms(e.pat)
  IN IF e.exc # "none" THEN "no-exception"
     ELSE IF e.kind = "find" THEN JudgeAnswer(X, P, e.ans, e.rotbound)
     ELSE
       LET XR == [cell |-> AsCell(e.rcell), atoms |-> AsAtoms(e.ratoms)]
           d == e.dims
       IN IF XR.cell # ReplicaCell(X, d) THEN "supercell-cell"
          ELSE IF {XR.atoms[a] : a \in 1..Len(XR.atoms)} # ReplicaAtoms(X, d)
                  \/ Len(XR.atoms) # d[1] * d[2] * d[3] * Len(X.atoms) THEN "supercell-atoms"
          ELSE LET v == JudgeAnswer(XR, P, e.ans, e.rotbound)
               IN IF v # "ok" THEN v
                  ELSE IF Len(e.ans) # d[1] * d[2] * d[3] * Cardinality(Groups(DefTuplesR(X, P, IF Precondition(X, P) THEN 1 ELSE 2))) THEN "supercell-count"
                  ELSE "ok"

\* (TLC's workers do not share the successors of one state; the harness shards the batch over several JVMs)
Init == i = 0 /\ verdict = "init"
Next == /\ i = 0
        /\ i' \in 1..Len(Batch)
        /\ verdict' = Judge(Batch[i'])
Spec == Init /\ [][Next]_vars
Report == (i > 0 /\ verdict # "ok") => PrintT(<<"REJECT", i, verdict>>)
=============================================================================
