------------------------------- MODULE MC_Bond -------------------------------
(***************************************************************************)
(* Crystals for C17:                                                       *)
(*  "pair"  two atoms of every element pair of the radius table at distance *)
(*          cutoff-1 and cutoff+1 (units of 0.01 A), inside the cell and     *)
(*          through a face, an edge and a corner image;                     *)
(*  "scan"  a large-radius pair with the second atom scanned over a grid of  *)
(*          a sheared / tilted / orthorhombic cell (finds wrong minimum-     *)
(*          image rules);                                                   *)
(*  "chain" 18 / 24 / 27 atoms on a grid of bonded rows;                     *)
(*  "multi" every 2..4-subset of seven sites near faces and corners, then   *)
(*          shifted and wrapped (C17's second sentence).                    *)
(* TLC checks on every crystal that the 27-image design equals the          *)
(* definition under the width precondition.                                *)
(***************************************************************************)
EXTENDS BondRule, Json
CONSTANTS PairElems, ScanStep, Emit
VARIABLES x
vars == <<x>>

BCell(c) == CASE c = "none" -> <<>>
              [] c = "ortho" -> <<<<600,0,0>>, <<0,700,0>>, <<0,0,900>>>>
              [] c = "tri" -> <<<<700,0,0>>, <<200,650,0>>, <<-150,100,800>>>>
              [] c = "shearp" -> <<<<600,0,0>>, <<300,600,0>>, <<0,0,1000>>>>
              [] c = "shearm" -> <<<<600,0,0>>, <<-300,600,0>>, <<0,0,1000>>>>
At(e, p) == [el |-> e, pos |-> p]
Mk(c, atoms, kind) == [cellname |-> c, cell |-> BCell(c), atoms |-> atoms, kind |-> kind]
W(c, p) == IF BCell(c) = <<>> THEN p ELSE Wrap(BCell(c), p)

\* second atom at distance d along x from a first atom placed so that the partner lies inside / across a face / edge / corner
Anchor(c, where) == LET C == BCell(c)
                    IN CASE where = "inside" -> <<150, 300, 400>>
                         [] where = "face"   -> VAdd3(VAdd3(C[1], <<-20, 0, 0>>), <<0, 300, 400>>)     \* 0.2 A from the +a face
                         [] where = "edge"   -> VAdd3(VAdd3(VAdd3(C[1], C[2]), <<-20, -15, 0>>), <<0, 0, 400>>)
                         [] where = "corner" -> VAdd3(VAdd3(VAdd3(C[1], C[2]), C[3]), <<-20, -15, -10>>)
Dir(where) == CASE where = "inside" -> <<1, 0, 0>> [] where = "face" -> <<1, 0, 0>> [] where = "edge" -> <<3, 4, 0>> [] where = "corner" -> <<2, 3, 6>>
DirLen(where) == CASE where = "inside" -> 1 [] where = "face" -> 1 [] where = "edge" -> 5 [] where = "corner" -> 7

\* The state is first a cheap *chunk descriptor* (so that initial-state enumeration, which is single threaded, does no
\* geometry) and then one crystal of that chunk (computed by the workers in parallel).
\* "deep": in a sheared cell, an atom 0.1 A below the far b-face and its partner on the other side of that face, deep
\* inside the cell (a distance of cutoff -/+ 1 through the image): the partner is within bonding range of the face by its
\* perpendicular distance, but not if the distance is measured along the cell vector
DeepOf(q) ==
  LET C == BCell(q[1])
      B == <<400, 590, 500>>
      img == VSub3(B, C[2])
  IN {Mk(q[1], <<At(q[3], W(q[1], B)), At(q[4], W(q[1], VAdd3(img, <<0, k, 0>>)))>>, "deep") : k \in {Cut(q[3], q[4]) - 1, Cut(q[3], q[4]) + 1}}
\* "near": two atoms on a line, in units of 1e-6 A, at cutoff -/+ 1e-6, 2e-5, 1e-3 A (no cell, or through the face of a 6 x 7 x 9 A
\* box); judged without squares (JudgeNear)
NearOf(q) ==
  LET cut == Cut(q[3], q[4]) * 10000
      L == 6000000
  IN {[cellname |-> q[1], cell |-> IF q[1] = "none" THEN <<>> ELSE <<<<L, 0, 0>>, <<0, 7000000, 0>>, <<0, 0, 9000000>>>>, kind |-> "near",
       atoms |-> <<At(q[3], <<100000, 3000000, 4000000>>),
                   At(q[4], <<IF q[1] = "none" THEN 100000 + cut + k ELSE 100000 - (cut + k) + L, 3000000, 4000000>>)>>] :
         k \in {-1000, -20, -1, 1, 20, 1000}}
PairsOf(q) ==      \* q = <<cell, where, e1, e2>>
  IF q[2] = "deep" THEN DeepOf(q) ELSE IF q[2] = "near" THEN NearOf(q) ELSE
  {Mk(q[1], <<At(q[3], W(q[1], Anchor(q[1], q[2]))), At(q[4], W(q[1], VAdd3(Anchor(q[1], q[2]), VMul3(k, Dir(q[2])))))>>, "pair") :
      k \in {(Cut(q[3], q[4]) \div DirLen(q[2])) - 1, (Cut(q[3], q[4]) \div DirLen(q[2])) + 1}}
ScansOf(q) ==      \* q = <<cell, <<e1, e2>>, i>>
  {Mk(q[1], <<At(q[2][1], <<60, 30, 500>>), At(q[2][2], W(q[1], <<60 + ScanStep * q[3], 30 + ScanStep * j, 500 + 20 * (q[3] % 3)>>))>>, "scan") :
      j \in 0..(600 \div ScanStep)}

Sites == <<At("C", <<50, 50, 50>>), At("O", <<170, 60, 50>>), At("H", <<560, 580, 50>>), At("Zn", <<20, 300, 850>>),
           At("C", <<580, 40, 860>>), At("Cu", <<300, 300, 400>>), At("O", <<460, 330, 420>>)>>
SubsetsOf(n, k) == {S \in SUBSET (1..n) : Cardinality(S) = k}
SeqOf(S) == LET RECURSIVE F(_)
                F(QQ) == IF QQ = {} THEN <<>> ELSE LET m == CHOOSE m \in QQ : \A y \in QQ : m <= y IN <<m>> \o F(QQ \ {m})
            IN F(S)
MultisOf(q) ==     \* q = <<cell, S>>
  {Mk(q[1], [n \in 1..Cardinality(q[2]) |-> LET a == Sites[SeqOf(q[2])[n]] IN At(a.el, W(q[1], VAdd3(a.pos, v)))], "multi") :
      v \in {<<0, 0, 0>>, <<130, -260, 415>>}}

\* n atoms on a 3 x 3 x k grid: neighbours along x are 1.5 A apart (bonded), rows and layers 2.4 / 2.5 A apart (not
\* bonded); more atoms than any block size a vectorised implementation is likely to use
ChainsOf(q) ==     \* q = <<cell, {n}>>  (the same shape as the descriptors of "multi": TLC compares descriptors)
  {Mk(q[1], [i \in 1..(CHOOSE n \in q[2] : TRUE) |->
               At(IF i % 5 = 0 THEN "N" ELSE "C", W(q[1], <<20 + 150 * ((i - 1) % 3), 30 + 240 * (((i - 1) \div 3) % 3), 40 + 250 * ((i - 1) \div 9)>>))], "chain")}

Chunks == {[kind |-> "chunk", what |-> "pair", q |-> q] : q \in ({"shearp", "shearm"} \X {"deep"} \X PairElems \X PairElems)
                                                              \cup ({"none", "ortho"} \X {"near"} \X PairElems \X PairElems)} \cup
          {[kind |-> "chunk", what |-> "chain", q |-> q] : q \in {"ortho", "tri"} \X {{18}, {24}, {27}}} \cup
          {[kind |-> "chunk", what |-> "pair", q |-> q] : q \in {"ortho", "tri"} \X {"inside", "face", "edge", "corner"} \X PairElems \X PairElems}
          \cup {[kind |-> "chunk", what |-> "scan", q |-> q] :
                   q \in {"shearp", "shearm", "tri", "ortho"} \X {<<"Zr", "Zr">>, <<"Cs", "I">>, <<"C", "C">>, <<"Cu", "O">>} \X (0..(600 \div ScanStep))}
          \cup {[kind |-> "chunk", what |-> "multi", q |-> q] : q \in {"ortho", "tri", "none"} \X UNION {SubsetsOf(7, k) : k \in 2..4}}
CrystalsOf(c) == IF c.what = "chain" THEN ChainsOf(c.q) ELSE IF c.what = "pair" THEN PairsOf(c.q) ELSE IF c.what = "scan" THEN ScansOf(c.q) ELSE MultisOf(c.q)
Valid(y) == y.kind = "near" \/ (~Ambiguous(y) /\ InsideB(y) /\ WidthsOKB(y) /\ \A i, j \in 1..Len(y.atoms) : i # j => y.atoms[i].pos # y.atoms[j].pos)

Init == x \in Chunks
Next == x.kind = "chunk" /\ x' \in {y \in CrystalsOf(x) : Valid(y)}
Spec == Init /\ [][Next]_vars
\* the design (27 images of one atom against the other) finds exactly the minimum-image bonds
DesignInv == x.kind \notin {"chunk", "near"} => AlgoBonds(x) = DefBonds(x)
EmitInv == (Emit /\ x.kind # "chunk") => PrintT(<<"CRYSTAL", ToJson(x)>>)
=============================================================================
