---------------------------- MODULE MC_MassGuess ----------------------------
(***************************************************************************)
(* Case generator for C14, exhaustive over the mass table: every tabulated  *)
(* mass; both sides of the tolerance boundary of every element; both sides  *)
(* of the midpoint between mass-neighbours (including the pairs that are    *)
(* out of atomic-number order); non-atomic masses; lists mixing atomic and  *)
(* non-atomic masses.  Checks on the model that a distinguishable element   *)
(* maps to itself and that Allowed is never empty for a known mass.         *)
(***************************************************************************)
EXTENDS MassGuess, Json

CONSTANTS Tols, Emit
VARIABLES case
vars == <<case>>

Idx == 1..Len(Table)
\* neighbour in mass order: the element with the smallest mass above
Above(i) == {j \in Idx : Table[j].m > Table[i].m}
NextUp(i) == CHOOSE j \in Above(i) : \A k \in Above(i) : Table[j].m <= Table[k].m

Single(tol) ==
  UNION {{Table[i].m, Table[i].m - (tol - 2), Table[i].m + (tol - 2), Table[i].m - (tol + 2), Table[i].m + (tol + 2)} : i \in Idx}   \* (exactly +-tol is left out: decided by float rounding)
  \cup UNION {IF Above(i) = {} THEN {} ELSE LET j == NextUp(i) mid == (Table[i].m + Table[j].m) \div 2
                                            IN {mid - 3, mid + 3} : i \in Idx}
  \cup {500000, 2500000, 13000000, 400000000}

Init == \E tol \in Tols :
          \/ \E m \in Single(tol) : m > 0 /\ case = [ms |-> <<m>>, tol |-> tol]
          \* the boundary masses of one tolerance judged under every other tolerance (a mass that is an element under a loose
          \* tolerance is none under a strict one; the harness runs the loose one first, in the same process)
          \/ \E other \in Tols \ {tol} : \E m \in Single(other) : m > 0 /\ case = [ms |-> <<m>>, tol |-> tol]
          \/ \E i \in Idx : case = [ms |-> <<Table[i].m, 12010700, Table[i].m + 5 * tol>>, tol |-> tol]       \* mixed list
          \/ \E i \in Idx : i + 2 <= Len(Table) /\ case = [ms |-> <<Table[i+2].m, Table[i].m, Table[i+1].m>>, tol |-> tol]
          \* several non-atomic masses in one list (united-atom / coarse-grained files), alone and next to atomic ones
          \/ \E l \in {<<500000000, 1000000000>>, <<13000000, 500000>>, <<2500000, 2500000>>, <<400000000, 13000000, 500000000>>,
                         <<12010700, 500000000, 1000000000>>, <<500000000, 15999400, 13000000>>} : case = [ms |-> l, tol |-> tol]
Next == UNCHANGED case
Spec == Init /\ [][Next]_vars

ModelInv ==
  /\ \A k \in 1..Len(case.ms) : Known(case.ms[k], case.tol) => Allowed(case.ms[k], case.tol) # {}
  /\ \A i \in Idx : Distinguishable(i, case.tol) => Allowed(Table[i].m, case.tol) = {Table[i].el}
EmitInv == Emit => PrintT(<<"CASE", ToJson(case)>>)
=============================================================================
