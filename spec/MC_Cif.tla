------------------------------- MODULE MC_Cif -------------------------------
(***************************************************************************)
(* Cases for C15.  Round trip: library fragments (with terms, impropers,    *)
(* extra columns) x cells given by exact cell parameters x coordinates      *)
(* inside / outside / on the boundary of the cell x fractional / Cartesian  *)
(* output.  Reading: small documents x space-group names x coordinate       *)
(* notations (outside [0,1), standard uncertainties) x fractional /         *)
(* Cartesian x bond lists.                                                  *)
(***************************************************************************)
EXTENDS CifFile, Frags, Json
CONSTANTS FragNames, Emit
VARIABLES c
vars == <<c>>

CellPar(n) == CASE n = "ortho" -> <<80000, 100000, 160000, 900000, 900000, 900000>>
                [] n = "tri1"  -> <<90000, 100000, 120000, 800000, 1000000, 750000>>
                [] n = "tri2"  -> <<70000, 80000, 95000, 1100000, 950000, 1050000>>
Move(s, p, i) == CASE s = "in" -> <<p[1] * 7, p[2] * 5, p[3] * 9>>
                   [] s = "out" -> <<p[1] * 7 + 80 * (i % 2), p[2] * 5 - 160, 100 + p[3] * 9>>
                   [] s = "edge" -> <<IF i = 1 THEN 0 ELSE p[1] * 7, IF i = 2 THEN 80 ELSE p[2] * 5, p[3] * 9>>

RoundTrip(f, cn, s, o) ==
  LET F == Inst(f, 0)
  IN [kind |-> "roundtrip", K |-> [F EXCEPT !.pos = [i \in 1..Len(F.q) |-> Move(s, F.pos[i], i)],
                                        !.q = [i \in 1..Len(F.q) |-> IF s = "edge" /\ i = 1 THEN 0 ELSE F.q[i]]],   \* one neutral atom
   cell |-> cn, cellpar |-> CellPar(cn), out |-> o]

Tok(t, n) == [text |-> t, num |-> n]
FracToks == <<Tok("0.2500", 20), Tok("1.2500", 100), Tok("-0.3750", -30), Tok("0.1250(3)", 10), Tok("2.25", 180),
              Tok("-1.375", -110), Tok("1.0", 80), Tok("0.0", 0), Tok("0.98750(12)", 79)>>
CartToks == <<Tok("1.2345(6)", 12345), Tok("-0.5", -5000), Tok("0", 0), Tok("12.125", 121250), Tok("3.0000", 30000), Tok("7.5(1)", 75000)>>
SGs == {"absent", "P1", "P 1", "P4", "Fm-3m", "P 1 21/c 1", "P -1", "P 4/m m m", "P 1 m 1", "P 21"}
ReadDoc(sg, cart, k, nb) ==
  LET T == IF cart = "yes" THEN CartToks ELSE FracToks
      L == Len(T)
      at(i) == [label |-> <<"C1", "O1", "C2">>[i], el |-> <<"C", "O", "C">>[i],
                c |-> <<T[((i + k) % L) + 1].num, T[((2 * i + k) % L) + 1].num, T[((3 * i + k + 1) % L) + 1].num>>,
                t |-> <<T[((i + k) % L) + 1].text, T[((2 * i + k) % L) + 1].text, T[((3 * i + k + 1) % L) + 1].text>>]
  IN [kind |-> "read", D |-> [sg |-> sg, cart |-> cart, atoms |-> [i \in 1..3 |-> at(i)],
                              bonds |-> SubSeq(<<<<"C1", "O1">>, <<"C2", "O1">>>>, 1, nb)]]

\* twelve atoms, four of each of three elements (site labels with two digits do not occur, but element counters above a
\* few do), and a chain of twenty-three: C1 ... C8
RoundTripBig(n, cn, o) ==
  [kind |-> "roundtrip", K |-> [BigChain(n, 0) EXCEPT !.pos = [i \in 1..n |-> <<3 * i, (7 * i) % 80, (11 * i + 5) % 80>>]],
   cell |-> cn, cellpar |-> CellPar(cn), out |-> o]
Init == \/ \E n \in {12, 33}, cn \in {"ortho", "tri1"}, o \in {"fract", "cart"} : (o = "cart" => cn = "ortho") /\ c = RoundTripBig(n, cn, o)
        \/ \E f \in FragNames, cn \in {"ortho", "tri1", "tri2"}, s \in {"in", "out", "edge"}, o \in {"fract", "cart"} :
             (o = "cart" => cn = "ortho") /\ c = RoundTrip(f, cn, s, o)
        \/ \E sg \in SGs, cart \in {"yes", "no"}, k \in 0..8, nb \in 0..2 : c = ReadDoc(sg, cart, k, nb)
Next == UNCHANGED c
Spec == Init /\ [][Next]_vars
ModelInv == c.kind = "roundtrip" => WFK(c.K)
EmitInv == Emit => PrintT(<<"CASE", ToJson(c)>>)
=============================================================================
