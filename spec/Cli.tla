--------------------------------- MODULE Cli ---------------------------------
(***************************************************************************)
(* C20: the command-line tool as a sequence of API calls.  For an option    *)
(* set O the tool must perform exactly                                      *)
(*   load(input) [load(extract-uc)] [replicate(dims)] [replicate(mic dims)]  *)
(*   [assign pair parameters] ( load(find) load(replace) replace(options)    *)
(*   | load(find) find(atol) | nothing ) save(output)                        *)
(* in this order (replication before replacement), with every option value   *)
(* appearing in the call it names.  Calls are recorded by the harness as     *)
(* records [name, what, dims, atol, fn, fd, hints]; numbers are integers     *)
(* (atol in 1e-4 A, cell lengths and 2*mic in 1e-4 A, fraction fn/fd).       *)
(***************************************************************************)
EXTENDS Integers, Sequences, FiniteSets, TLC

None == -1
CeilDiv(a, b) == (a + b - 1) \div b
Call(name, what, dims, atol, fn, fd, hints) ==
  [name |-> name, what |-> what, dims |-> dims, atol |-> atol, fn |-> fn, fd |-> fd, hints |-> hints]
L(what) == Call("load", what, <<0,0,0>>, 0, 0, 1, <<None, None, None>>)
Rep(d) == Call("replicate", "", d, 0, 0, 1, <<None, None, None>>)

\* O: [input, output, find, replace ("yes"/"no"), atol, fn, fd, hints, replicate (dims or <<0,0,0>>), mic2 (2*mic in 1e-4 A or 0),
\*     pp, uc ("yes"/"no"), celldiag (cell lengths of the structure after loading, 1e-4 A, <<0,0,0>> if not orthorhombic)]
Expected(O) ==
  LET afterRep == IF O.replicate = <<0,0,0>> THEN O.celldiag
                  ELSE <<O.celldiag[1] * O.replicate[1], O.celldiag[2] * O.replicate[2], O.celldiag[3] * O.replicate[3]>>
  IN <<L("input")>>
     \o (IF O.uc = "yes" THEN <<L("uc")>> ELSE <<>>)
     \o (IF O.replicate # <<0,0,0>> THEN <<Rep(O.replicate)>> ELSE <<>>)
     \o (IF O.mic2 > 0 /\ O.celldiag # <<0,0,0>>
         THEN <<Rep(<<CeilDiv(O.mic2, afterRep[1]), CeilDiv(O.mic2, afterRep[2]), CeilDiv(O.mic2, afterRep[3])>>)>> ELSE <<>>)
     \o (IF O.pp = "yes" THEN <<Call("assign_pair", "", <<0,0,0>>, 0, 0, 1, <<None, None, None>>)>> ELSE <<>>)
     \o (IF O.find = "yes" /\ O.replace = "yes"
         THEN <<L("find"), L("replace"), Call("replace", "", <<0,0,0>>, O.atol, O.fn, O.fd, O.hints)>>
         ELSE IF O.find = "yes" THEN <<L("find"), Call("find", "", <<0,0,0>>, O.atol, 0, 1, <<None, None, None>>)>>
         ELSE <<>>)
     \o <<Call("save", "output", <<0,0,0>>, 0, 0, 1, <<None, None, None>>)>>

\* replication always precedes replacement in any expected sequence (model-level check)
ReplicateBeforeReplace(O) ==
  LET E == Expected(O)
  IN \A a, b \in 1..Len(E) : (E[a].name = "replicate" /\ E[b].name \in {"replace", "find"}) => a < b

JudgeCli(e) ==
  LET E == Expected(e.O)
  IN IF e.exc # "none" THEN "no-exception"
     ELSE IF e.exit # 0 THEN "exit-status"
     ELSE IF [n \in 1..Len(e.calls) |-> e.calls[n].name] # [n \in 1..Len(E) |-> E[n].name] THEN "call-sequence"
     ELSE IF \E n \in 1..Len(E) : e.calls[n].what # E[n].what THEN "files-loaded-and-saved"
     ELSE IF \E n \in 1..Len(E) : E[n].name = "replicate" /\ e.calls[n].dims # E[n].dims THEN "replication-factors"
     ELSE IF \E n \in 1..Len(E) : E[n].name \in {"replace", "find"} /\ e.calls[n].atol # E[n].atol THEN "tolerance-option"
     ELSE IF \E n \in 1..Len(E) : E[n].name = "replace" /\ e.calls[n].fn * E[n].fd # E[n].fn * e.calls[n].fd THEN "replacement-fraction-option"
     ELSE IF \E n \in 1..Len(E) : E[n].name = "replace" /\ e.calls[n].hints # E[n].hints THEN "axis-hint-options"
     ELSE IF e.charges # "ok" THEN "charge-file"
     ELSE IF e.same # "yes" THEN "output-equals-api-pipeline"
     ELSE IF e.O.find = "yes" /\ e.O.replace = "no" /\ e.findout # "yes" THEN "find-only-reports-api-matches-and-writes-structure-unmodified"
     ELSE "ok"
=============================================================================
