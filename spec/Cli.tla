--------------------------------- MODULE Cli ---------------------------------
(***************************************************************************)
(* C20: the command-line tool as a sequence of API calls.  For an option    *)
(* set O the tool must perform exactly                                      *)
(*   load(input) [load(extract-uc)] [replicate(dims)] [replicate(mic dims)]  *)
(*   [assign pair parameters] ( load(find) load(replace) replace(options)    *)
(*   | load(find) find(atol) | nothing ) save(output)                        *)
(* in this order (replication before replacement), with every option value   *)
(* appearing in the call it names.  Calls are recorded by the harness as     *)
(* records [name, what, dims, atol, fn, fd, hints]; numbers are integers     *)
(* (atol in 1e-4 A, cell lengths and 2*mic in 1e-4 A, fraction fn/fd).       *)
(***************************************************************************)
EXTENDS Integers, Sequences, FiniteSets, TLC

None == -1
CeilDiv(a, b) == (a + b - 1) \div b
Call(name, what, dims, atol, fn, fd, hints) ==
  [name |-> name, what |-> what, dims |-> dims, atol |-> atol, fn |-> fn, fd |-> fd, hints |-> hints]
L(what) == Call("load", what, <<0,0,0>>, 0, 0, 1, <<None, None, None>>)
Rep(d) == Call("replicate", "", d, 0, 0, 1, <<None, None, None>>)

\* O: [input, output, find, replace ("yes"/"no"), atol, fn, fd, hints, replicate (dims or <<0,0,0>>), mic2 (2*mic in 1e-4 A or 0),
\*     pp, uc ("yes"/"no"), celldiag (cell lengths of the structure after loading, 1e-4 A, <<0,0,0>> if not orthorhombic)]
Expected(O) ==
  LET afterRep == IF O.replicate = <<0,0,0>> THEN O.celldiag
                  ELSE <<O.celldiag[1] * O.replicate[1], O.celldiag[2] * O.replicate[2], O.celldiag[3] * O.replicate[3]>>
  IN <<L("input")>>
     \o (IF O.uc = "yes" THEN <<L("uc")>> ELSE <<>>)
     \o (IF O.replicate # <<0,0,0>> THEN <<Rep(O.replicate)>> ELSE <<>>)
     \o (IF O.mic2 > 0 /\ O.celldiag # <<0,0,0>>
         THEN <<Rep(<<CeilDiv(O.mic2, afterRep[1]), CeilDiv(O.mic2, afterRep[2]), CeilDiv(O.mic2, afterRep[3])>>)>> ELSE <<>>)
     \o (IF O.pp = "yes" THEN <<Call("assign_pair", "", <<0,0,0>>, 0, 0, 1, <<None, None, None>>)>> ELSE <<>>)
     \o (IF O.find = "yes" /\ O.replace = "yes"
         THEN <<L("find"), L("replace"), Call("replace", "", <<0,0,0>>, O.atol, O.fn, O.fd, O.hints)>>
         ELSE IF O.find = "yes" THEN <<L("find"), Call("find", "", <<0,0,0>>, O.atol, 0, 1, <<None, None, None>>)>>
         ELSE <<>>)
     \o <<Call("save", "output", <<0,0,0>>, 0, 0, 1, <<None, None, None>>)>>

\* replication always precedes replacement in any expected sequence (model-level check)
ReplicateBeforeReplace(O) ==
  LET E == Expected(O)
  IN \A a, b \in 1..Len(E) : (E[a].name = "replicate" /\ E[b].name \in {"replace", "find"}) => a < b

\* What is demanded of the recorded calls: the same calls as Expected(O) (each kind of call as often, loads and saves of
\* the same files), the input loaded first, the output saved last, every replication before the search / replacement
\* and the explicit replication before the one for the minimum-image cutoff, the unit-cell file loaded before anything
\* that depends on the cell, the pattern files loaded before they are used; every option value in the call it names.
\* (The order of independent calls - e.g. loading the patterns before or after replicating - is left open.)
Sel(cs, nm) == SelectSeq(cs, LAMBDA c : c.name = nm)
Idx(cs, nm, what) == {n \in 1..Len(cs) : cs[n].name = nm /\ (what = "*" \/ cs[n].what = what)}
Before(A, B) == \A a \in A, b \in B : a < b
O_atol(O) == O.atol
Range(f) == {f[x] : x \in DOMAIN f}
JudgeCli(e) ==
  LET E == Expected(e.O)
      cs == e.calls
      kinds == {<<E[n].name, E[n].what>> : n \in 1..Len(E)} \cup {<<cs[n].name, cs[n].what>> : n \in 1..Len(cs)}
      work == Idx(cs, "replace", "*") \cup Idx(cs, "find", "*")
      reps == Sel(cs, "replicate")   Ereps == Sel(E, "replicate")
  IN IF e.exc # "none" THEN "no-exception"
     ELSE IF e.exit # 0 THEN "exit-status"
     ELSE IF \E k \in kinds : Cardinality(Idx(cs, k[1], k[2])) # Cardinality(Idx(E, k[1], k[2])) THEN
             (IF \E k \in kinds : k[1] \in {"load", "save"} /\ Cardinality(Idx(cs, k[1], k[2])) # Cardinality(Idx(E, k[1], k[2]))
              THEN (IF [n \in 1..Len(cs) |-> cs[n].name] = [n \in 1..Len(E) |-> E[n].name] THEN "files-loaded-and-saved" ELSE "call-sequence")
              ELSE "call-sequence")
     ELSE IF cs[1].name # "load" \/ cs[1].what # "input" \/ cs[Len(cs)].name # "save" THEN "call-sequence"
     ELSE IF ~Before(Idx(cs, "replicate", "*"), work) \/ ~Before(Idx(cs, "load", "uc"), Idx(cs, "replicate", "*") \cup work)
             \/ ~Before(Idx(cs, "load", "find") \cup Idx(cs, "load", "replace"), work) THEN "call-sequence"
     ELSE IF [n \in 1..Len(reps) |-> reps[n].dims] # [n \in 1..Len(Ereps) |-> Ereps[n].dims] THEN "replication-factors"
     ELSE IF \E c \in Range(cs) : c.name \in {"replace", "find"} /\ c.atol # O_atol(e.O) THEN "tolerance-option"
     ELSE IF \E c \in Range(cs) : c.name = "replace" /\ c.fn * e.O.fd # e.O.fn * c.fd THEN "replacement-fraction-option"
     ELSE IF \E c \in Range(cs) : c.name = "replace" /\ c.hints # e.O.hints THEN "axis-hint-options"
     ELSE IF e.charges # "ok" THEN "charge-file"
     ELSE IF e.same # "yes" THEN "output-equals-api-pipeline"
     ELSE IF e.O.find = "yes" /\ e.O.replace = "no" /\ e.findout # "yes" THEN "find-only-reports-api-matches-and-writes-structure-unmodified"
     ELSE "ok"
=============================================================================
