----------------------------- MODULE Trace_Terms -----------------------------
EXTENDS Terms, Json, IOUtils
Batch == JsonDeserialize(IOEnv.TRACE_FILE)
VARIABLES i, verdict
vars == <<i, verdict>>
Judge(e) == IF e.kind = "enum" THEN JudgeEnum(e) ELSE JudgeTypes(e)
Init == i = 0 /\ verdict = "init"
Next == /\ i = 0 /\ i' \in 1..Len(Batch) /\ verdict' = Judge(Batch[i'])
Spec == Init /\ [][Next]_vars
Report == (i > 0 /\ verdict # "ok") => PrintT(<<"REJECT", i, verdict>>)
=============================================================================
