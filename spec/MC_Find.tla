------------------------------ MODULE MC_Find ------------------------------
(***************************************************************************)
(* Builds lattice crystals by planting copies of a pattern (any cube        *)
(* rotation, anchors inside / across faces, edges, corners of the cell),    *)
(* mirror copies, near misses and same-element distractors, and checks on   *)
(* every crystal that the *design* of the search (27 images, home-cell      *)
(* starts, grouping by atom set) finds exactly the occurrences of the       *)
(* definition when the width precondition holds.  Emits the crystals for    *)
(* replay into mofun.find_pattern_in_structure.                            *)
(***************************************************************************)
EXTENDS Find, Json, Randomization

CONSTANTS CellNames, PatNames, MaxCopies, MaxDecoys, MaxAtoms, AnchorSet, DecoySet, DecoyRots, DecoyKinds, PlantRots, Emit, NegativeControl, ShiftSet,
          Sim   \* TRUE only under -simulate: every step draws a few random candidates instead of enumerating all

\* anchors: interior, the three faces, three edges, the corner, and the far corner (-1 = last lattice plane)
AnchB == {<<8,8,7>>, <<0,9,2>>, <<-1,-1,-1>>}
AnchM == {<<2,3,10>>, <<-8,-6,-1>>}
AnchH == {<<2,3,4>>, <<30,0,41>>, <<-1,-1,-1>>}
AnchQ == {<<2,2,2>>, <<0,2,2>>, <<2,0,2>>, <<2,2,0>>, <<0,0,2>>, <<2,0,0>>, <<0,0,0>>, <<-1,-1,-1>>}
AnchT == AnchQ \cup {<<0,2,0>>, <<-1,2,2>>, <<2,-1,2>>, <<2,2,-1>>, <<-1,-1,2>>, <<-1,0,0>>, <<1,3,1>>, <<3,1,4>>}
DecoyQ == {<<1,0,0>>, <<0,-1,0>>, <<0,0,1>>, <<1,1,0>>, <<-1,0,1>>, <<0,2,0>>}
DecoyT == {<<x, y, z>> \in {-1,0,1,2} \X {-1,0,1,2} \X {-1,0,1} : <<x,y,z>> # <<0,0,0>>}
ShiftQ1 == {<<-2, 3, 1>>}
ShiftQ == {<<3, 2, 1>>, <<-2, -1, 4>>}
ShiftT == {<<1, 0, 0>>, <<3, 2, 1>>, <<-2, -1, 4>>, <<0, 5, 3>>}
RotsQ == {SignedPerm(<<1,2,3>>, <<1,1,1>>), SignedPerm(<<2,1,3>>, <<1,1,-1>>), SignedPerm(<<3,1,2>>, <<1,1,1>>), SignedPerm(<<1,3,2>>, <<-1,1,1>>)}
MirrorOf(M) == <<VMul3(-1, M[1]), M[2], M[3]>>

At(e, x, y, z) == [el |-> e, pos |-> <<x, y, z>>]

\* 25 atoms on a planar grid of spacing 4 (one element per row) and a Zn over the centre of a grid square
GridEl(r) == <<"C", "N", "O", "S", "Si">>[r]
Grid26 == [i \in 1..26 |-> IF i = 26 THEN At("Zn", 6, 6, 0)
                           ELSE At(GridEl(((i - 1) \div 5) + 1), 4 * ((i - 1) % 5), 4 * ((i - 1) \div 5), 0)]

Pat(p) ==
  CASE p = "P1"    -> <<At("Zn",0,0,0)>>
    [] p = "P2h"   -> <<At("C",0,0,0), At("O",2,1,0)>>
    [] p = "P2far" -> <<At("C",0,0,0), At("O",5,0,0)>>     \* only for the negative control
    [] p = "P2s"   -> <<At("C",0,0,0), At("C",2,0,0)>>
    [] p = "P3lin" -> <<At("C",0,0,0), At("N",1,0,0), At("C",2,0,0)>>
    [] p = "P3het" -> <<At("C",0,0,0), At("N",1,0,0), At("O",3,0,0)>>
    [] p = "P3iso" -> <<At("C",0,0,0), At("H",1,1,0), At("H",1,-1,0)>>
    [] p = "P3sca" -> <<At("C",0,0,0), At("N",2,0,0), At("O",0,1,0)>>
    [] p = "P4tet" -> <<At("C",0,0,0), At("H",1,0,0), At("H",0,1,0), At("H",0,0,1)>>
    [] p = "P4chi" -> <<At("C",0,0,0), At("N",2,0,0), At("O",0,1,0), At("F",0,0,1)>>
    [] p = "P4sam" -> <<At("C",0,0,0), At("C",2,0,0), At("C",0,1,0), At("C",1,1,2)>>
    [] p = "P4ax"  -> <<At("C",0,0,0), At("N",3,0,0), At("O",1,1,0), At("F",1,0,1)>>    \* chiral, longest axis along x
    [] p = "P4flat" -> <<At("C",0,0,0), At("N",5,0,-1), At("O",0,5,-1), At("F",1,1,0)>>  \* shallow chirality
    [] p = "P3long" -> <<At("C",0,0,0), At("N",20,0,0), At("O",40,0,0)>>   \* long collinear triple for bent decoys, see Bend
    [] p = "P4half" -> <<At("C",0,0,0), At("N",2,0,0), At("O",0,1,0), At("F",0,0,3)>>   \* in the cubic cell of width 6 the mirror image of F is a periodic image of F
    [] p = "P26dome" -> Grid26                                            \* 5 x 5 planar grid + one atom over a square centre, see Dome
    [] p = "P5"    -> <<At("C",0,0,0), At("N",2,0,0), At("O",0,1,0), At("H",0,0,1), At("H",1,1,1)>>

Cell(c) ==
  CASE c = "cub"    -> <<<<6,0,0>>, <<0,6,0>>, <<0,0,6>>>>
    [] c = "ort"    -> <<<<5,0,0>>, <<0,6,0>>, <<0,0,7>>>>
    [] c = "tri"    -> <<<<6,0,0>>, <<2,6,0>>, <<1,2,6>>>>
    [] c = "trineg" -> <<<<6,0,0>>, <<-2,6,0>>, <<1,-2,6>>>>
    [] c = "skew"   -> <<<<7,0,0>>, <<3,6,0>>, <<-3,3,6>>>>
    [] c = "big"    -> <<<<10,0,0>>, <<0,11,0>>, <<0,0,9>>>>
    [] c = "bigtri" -> <<<<10,0,0>>, <<-3,11,0>>, <<2,-4,9>>>>
    [] c = "huge"   -> <<<<44,0,0>>, <<0,45,0>>, <<0,0,46>>>>
    [] c = "hugetri" -> <<<<44,0,0>>, <<2,45,0>>, <<-1,3,46>>>>
    [] c = "mid"    -> <<<<30,0,0>>, <<0,31,0>>, <<0,0,32>>>>
    [] c = "midtri" -> <<<<30,0,0>>, <<-2,31,0>>, <<1,3,32>>>>
    [] c = "narrow" -> <<<<2,0,0>>, <<0,6,0>>, <<0,0,6>>>>      \* violates the width precondition for patterns of diameter >= 2

Chiral(P) == \E i, j, k, l \in 1..Len(P) :
               Det3(VSub3(P[j].pos, P[i].pos), VSub3(P[k].pos, P[i].pos), VSub3(P[l].pos, P[i].pos)) # 0

VARIABLES cell, pat, atoms, planted, ncopies, ndecoys, shifted, hist
vars == <<cell, pat, atoms, planted, ncopies, ndecoys, shifted, hist>>
X == [cell |-> Cell(cell), atoms |-> atoms]
P == Pat(pat)
atomset == {atoms[a] : a \in 1..Len(atoms)}
view == <<cell, pat, atomset, ncopies, ndecoys, shifted>>     \* planting order is irrelevant

Pick(S, k) == IF Sim THEN RandomSubset(IF Cardinality(S) < k THEN Cardinality(S) ELSE k, S) ELSE S
Anchors(c) == Pick(AnchorSet, 2)
ToCell(c, v) == \* anchor coordinate -1 means "last lattice plane" (cell diagonal entry - 1)
  <<IF v[1] < 0 THEN Cell(c)[1][1] + v[1] ELSE v[1], IF v[2] < 0 THEN Cell(c)[2][2] + v[2] ELSE v[2],
    IF v[3] < 0 THEN Cell(c)[3][3] + v[3] ELSE v[3]>>

Free(pos) == \A a \in 1..Len(atoms) : atoms[a].pos # pos
Distinct(ps) == \A i, j \in 1..Len(ps) : i # j => ps[i] # ps[j]

Init == /\ cell \in CellNames /\ pat \in PatNames
        /\ atoms = <<>> /\ planted = {} /\ ncopies = 0 /\ ndecoys = 0 /\ shifted = FALSE /\ hist = <<>>

\* place the image of the pattern under the signed permutation M, translated to anchor v, wrapped into the cell
Placed(M, v, Q) == [i \in 1..Len(Q) |-> [el |-> Q[i].el, pos |-> Wrap(Cell(cell), VAdd3(MApply(M, Q[i].pos), ToCell(cell, v)))]]

PlantWith(M, v, Q, kind) ==
  LET new == Placed(M, v, Q)
  IN /\ Len(atoms) + Len(new) <= MaxAtoms
     /\ Distinct([i \in 1..Len(new) |-> new[i].pos])
     /\ \A i \in 1..Len(new) : Free(new[i].pos)
     /\ atoms' = atoms \o new
     /\ hist' = Append(hist, [op |-> kind, v |-> v])
     /\ UNCHANGED <<cell, pat, shifted>>

Plant == /\ ncopies < MaxCopies /\ ndecoys = 0
         /\ \E M \in Pick(PlantRots, 3), v \in Anchors(cell) :
              /\ PlantWith(M, v, P, "Plant")
              /\ planted' = planted \cup {{Len(atoms) + i : i \in 1..Len(P)}}
         /\ ncopies' = ncopies + 1 /\ UNCHANGED ndecoys

PlantMirror == /\ ndecoys < MaxDecoys /\ Chiral(P) /\ "mirror" \in DecoyKinds
               /\ \E M \in {MirrorOf(R) : R \in Pick(DecoyRots, 2)}, v \in Anchors(cell) : PlantWith(M, v, P, "PlantMirror")
               /\ ndecoys' = ndecoys + 1 /\ UNCHANGED <<ncopies, planted>>

\* a copy with its last atom displaced by one lattice unit
NearMiss == /\ ndecoys < MaxDecoys /\ Len(P) >= 2 /\ "near" \in DecoyKinds
            /\ \E M \in Pick(DecoyRots, 2), v \in Anchors(cell), d \in {<<1,0,0>>, <<0,-1,0>>, <<0,0,1>>} :
                 PlantWith(M, v, [P EXCEPT ![Len(P)].pos = VAdd3(@, d)], "NearMiss")
            /\ ndecoys' = ndecoys + 1 /\ UNCHANGED <<ncopies, planted>>

(* A bent copy of the long collinear pattern: the middle atom one lattice unit off the axis.  Its pair distances    *)
(* agree with the pattern's within the tolerance (sqrt(401) - 20 = 0.025 < tol), its *positions* do not: whatever  *)
(* rigid motion is used, some atom is at least a quarter of a lattice unit (8 tol) away.  By the definition (exact *)
(* squared distances) it is not an occurrence; a search that only compares distances reports it.                   *)
Bend == /\ ndecoys < MaxDecoys /\ "bend" \in DecoyKinds /\ Len(P) = 3
        /\ \E M \in Pick(DecoyRots, 2), v \in Anchors(cell), d \in {<<0,1,0>>, <<0,0,-1>>} :
             PlantWith(M, v, [P EXCEPT ![2].pos = VAdd3(@, d)], "Bend")
        /\ ndecoys' = ndecoys + 1 /\ UNCHANGED <<ncopies, planted>>

(* A domed copy of the 26-atom planar pattern: the Zn one lattice unit out of the plane.  This configuration is   *)
(* searched with the tolerance class tol = 1/4 lattice unit: every Zn-grid distance changes by at most              *)
(* 3 - sqrt(8) = 0.17 < tol, the root-mean-square deviation of the best fit is 1/sqrt(26) = 0.196 < tol, but the    *)
(* Zn itself is 4 tol away from where the pattern puts it (0.96 lattice units under the best rigid fit): clearly     *)
(* outside "each atom within the tolerance".  By the definition (exact squared distances) it is not an occurrence;  *)
(* a search that compares distances only, or an average deviation, reports it.  In these crystals (copy + domed copy *)
(* far apart, one element per grid row) no other candidate comes within the tolerance.                              *)
Dome == /\ ndecoys < MaxDecoys /\ "dome" \in DecoyKinds /\ Len(P) = 26
        /\ \E M \in Pick(DecoyRots, 2), v \in Anchors(cell), d \in {<<0,0,1>>, <<0,0,-1>>} :
             PlantWith(M, v, [P EXCEPT ![26].pos = VAdd3(@, d)], "Dome")
        /\ ndecoys' = ndecoys + 1 /\ UNCHANGED <<ncopies, planted>>

\* a same-element distractor next to something
AddAtom == /\ ndecoys < MaxDecoys /\ Len(atoms) < MaxAtoms /\ Len(atoms) > 0 /\ "atom" \in DecoyKinds
           /\ \E e \in {P[i].el : i \in 1..Len(P)}, v \in Pick(DecoySet, 3) :
                LET pos == Wrap(Cell(cell), VAdd3(atoms[1].pos, v))
                IN /\ Free(pos)
                   /\ atoms' = Append(atoms, [el |-> e, pos |-> pos])
                   /\ hist' = Append(hist, [op |-> "AddAtom", v |-> v])
           /\ ndecoys' = ndecoys + 1 /\ UNCHANGED <<cell, pat, ncopies, planted, shifted>>

\* translate everything and wrap back (C03): atom indices are kept, so groups must be unchanged
Shift == /\ Len(atoms) > 0 /\ ~shifted /\ shifted' = TRUE
         /\ \E v \in ShiftSet :
              /\ atoms' = ShiftX(X, v).atoms
              /\ hist' = Append(hist, [op |-> "Shift", v |-> v])
         /\ UNCHANGED <<cell, pat, planted, ncopies, ndecoys>>

Next == Plant \/ PlantMirror \/ NearMiss \/ Bend \/ Dome \/ AddAtom \/ Shift
Spec == Init /\ [][Next]_vars

---------------------------------------------------------------------------
Precond == Precondition(X, P)

\* One invariant (the occurrence set is computed once per crystal):
\*  - the design finds exactly the occurrences of the definition (C02 at design level)
\*  - every planted copy is an occurrence (the definition is not too strict)
\*  - on planted copies Gram congruence is witnessed by a cube rotation (the definition is not too lax)
FindInv ==
  LET D == DefTuples(X, P)
      G == Groups(D)
  IN /\ (Precond /\ ~NegativeControl) => AlgoGroups(X, P) = G
     /\ Precond => planted \subseteq G
     \* sanity of the definition on the copies that were planted by cube rotations (an *accidental* occurrence formed
     \* by atoms of different copies may be related to the pattern by a proper rotation outside the cube group -
     \* TLC found one: atoms of a P4ax copy and of its mirror decoy - so nothing is claimed about those)
     /\ \A cs \in D : GroupOf(cs) \in planted => RotCongruent(PatPos(P), TuplePos(cs))
\* negative control: claims the same for a cell that is too narrow; TLC must find a counterexample
NarrowBreaks == AlgoGroups(X, P) = DefGroups(X, P)

ShiftInvariant == [][hist' # hist /\ hist'[Len(hist')].op = "Shift" =>
                      DefGroups([cell |-> Cell(cell), atoms |-> atoms'], P) = DefGroups(X, P)]_vars

\* margins that make "well inside / clearly outside the tolerance" well defined for the zoo (tol <= 1/32):
\* distinct integer squared distances up to 60 differ by more than 1/16 in length, and the mirror image of a
\* chiral pattern misses by more than 2 tol in some coordinate whatever axis / orientation points are used
CloseSq(a, b, tn, td) == LET s == td * td * (a + b) - tn * tn IN s <= 0 \/ s * s <= 4 * a * b * td * td * td * td
ASSUME \A a \in 1..60, b \in 0..80 : a # b => ~CloseSq(a, b, 1, 16)
MirrorMargin(Q) == \A i, j, k, l \in 1..Len(Q) :
   LET d == Det3(VSub3(Q[j].pos, Q[i].pos), VSub3(Q[k].pos, Q[i].pos), VSub3(Q[l].pos, Q[i].pos))
       n2 == Norm2(Cross3(VSub3(Q[j].pos, Q[i].pos), VSub3(Q[k].pos, Q[i].pos)))
   IN d # 0 => d * d * 1024 > 3 * n2
\* (the long collinear pattern is exempt: its only near-candidates are the bent decoys, argued at Bend)
ASSUME \A p \in PatNames \ {"P3long", "P26dome"} : MirrorMargin(Pat(p)) /\ Diameter2(PatPos(Pat(p))) <= 60

\* replacement patterns offered for a search pattern Q (used by the replace drivers): identical, one element
\* substituted, one atom added off-axis, empty, first atom only, nothing in common
RPVariants(Q) ==
  LET l == Q[Len(Q)].pos
      f == Q[1].pos
  IN <<[name |-> "same",   atoms |-> Q],
       [name |-> "subst",  atoms |-> [Q EXCEPT ![Len(Q)].el = "Br"]],
       [name |-> "grow",   atoms |-> Append(Q, At("Cl", l[1] + 1, l[2] + 2, l[3] - 1))],
       [name |-> "empty",  atoms |-> <<>>],
       [name |-> "first",  atoms |-> <<Q[1]>>],
       [name |-> "allnew", atoms |-> <<At("Si", f[1], f[2], f[3] + 1), At("Ge", f[1] + 1, f[2], f[3] + 2)>>]>>

EmitInv == (Emit /\ Len(atoms) > 0) =>
             PrintT(<<"CRYSTAL", ToJson([cell |-> Cell(cell), cellname |-> cell, patname |-> pat, pat |-> P, atoms |-> atoms,
                                         inside |-> AtomsInside(X), rps |-> RPVariants(P),
                                         widths |-> WidthsOK(X, DiamBoundNum(P), 8), hist |-> hist])>>)
=============================================================================
