----------------------------- MODULE MassGuess -----------------------------
(***************************************************************************)
(* C14: elements inferred from masses.  MassTable (generated on every run   *)
(* from /repo/mofun/atomic_masses.py) gives Table == <<[el, m], ...>> in    *)
(* periodic-table order, masses in micro mass units.                       *)
(*                                                                         *)
(* Allowed(m, tol): the elements a correct guess may return for mass m -    *)
(* those within tol whose distance is minimal (a tie leaves both).         *)
(* AllowedAll(ms, tol): per type, or the documented fallback (type numbers  *)
(* "1", "2", ... for ALL types) iff some mass has no element within tol.    *)
(***************************************************************************)
EXTENDS Integers, Sequences, FiniteSets, TLC, MassTable

AbsI(x) == IF x < 0 THEN -x ELSE x
Within(m, tol) == {i \in 1..Len(Table) : AbsI(m - Table[i].m) < tol}
Nearest(m, tol) == LET W == Within(m, tol)
                   IN {i \in W : \A j \in W : AbsI(m - Table[i].m) <= AbsI(m - Table[j].m)}
Allowed(m, tol) == {Table[i].el : i \in Nearest(m, tol)}
Known(m, tol) == Within(m, tol) # {}

\* verdict on an observed answer `els` (sequence of strings) for masses `ms`
JudgeGuess(ms, tol, els, raised) ==
  IF \E k \in 1..Len(ms) : ~Known(ms[k], tol)
  THEN (IF raised = "yes" THEN "ok" ELSE "element-invented-for-non-atomic-mass")
  ELSE IF raised = "yes" THEN "raised-although-every-mass-is-atomic"
  ELSE IF Len(els) # Len(ms) THEN "one-element-per-type"
  ELSE IF \E k \in 1..Len(ms) : els[k] \notin {Table[i].el : i \in Within(ms[k], tol)} THEN "element-not-within-tolerance"
  ELSE IF \E k \in 1..Len(ms) : els[k] \notin Allowed(ms[k], tol) THEN "not-the-nearest-element"
  ELSE "ok"

\* the same through load_lmpdat: fallback to type numbers for all types
JudgeLoad(ms, tol, els) ==
  IF \E k \in 1..Len(ms) : ~Known(ms[k], tol)
  THEN (IF els = [k \in 1..Len(ms) |-> ToString(k)] THEN "ok" ELSE "fallback-to-type-numbers-for-all-types")
  ELSE JudgeGuess(ms, tol, els, "no")

\* write/read cycle: a structure built from elements (default masses) is written as LAMMPS data and read back; what the
\* reader may answer is what it may answer for the tabulated masses of those elements (so every distinguishable element
\* comes back unchanged)
JudgeCycle(elin, tol, els) ==
  IF \E k \in 1..Len(elin) : ~\E i \in 1..Len(Table) : Table[i].el = elin[k] THEN "blocked:element-not-in-the-table"
  ELSE JudgeLoad([k \in 1..Len(elin) |-> Table[CHOOSE i \in 1..Len(Table) : Table[i].el = elin[k]].m], tol, els)

\* an element is distinguishable when no other element lies within 2*tol of its mass
Distinguishable(i, tol) == \A j \in 1..Len(Table) : j # i => AbsI(Table[i].m - Table[j].m) >= 2 * tol
=============================================================================
