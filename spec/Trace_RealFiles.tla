--------------------------- MODULE Trace_RealFiles ---------------------------
EXTENDS RealFiles, Json, IOUtils
Batch == JsonDeserialize(IOEnv.TRACE_FILE)
VARIABLES i, verdict
vars == <<i, verdict>>
Init == i = 0 /\ verdict = "init"
Next == /\ i = 0 /\ i' \in 1..Len(Batch) /\ verdict' = Judge(Batch[i'])
Spec == Init /\ [][Next]_vars
Report == (i > 0 /\ verdict # "ok") => PrintT(<<"REJECT", i, verdict>>)
=============================================================================
