------------------------------ MODULE Replace ------------------------------
(***************************************************************************)
(* The replacement pipeline of mofun.replace_pattern_in_structure at        *)
(* property level (C04-C08), built from AtomsAbs operations:                *)
(*                                                                         *)
(*   found      the matches of the search pattern (an allowed answer of     *)
(*              Find for end-to-end runs, the stub's list otherwise)        *)
(*   select     any sub-list whose size is a nearest integer to f * |found| *)
(*   retained   replacement atoms with the element and coordinates of a     *)
(*              search atom are the same atom (unless replace_all)          *)
(*   insert     per selected match: the replacement pattern posed by a      *)
(*              proper motion carrying the search pattern onto the match,   *)
(*              wrapped into the cell, joined to the structure by the       *)
(*              Extend operation with the retained atoms as identity map    *)
(*   overlap    if two selected matches would remove the same atom: the     *)
(*              dedicated exception and no structure (unless ignored)       *)
(*   delete     one bulk Delete of all matched, not retained atoms          *)
(*                                                                         *)
(* Each step is an operator; JudgeReplace composes them and names the       *)
(* first clause an observed call violates.                                 *)
(***************************************************************************)
EXTENDS AtomsAbs, Lattice

\* ---- retained atoms: replacement index r |-> search index s (first search atom with same element and position)
Retained(SP, RP) ==
  LET cand(r) == {s \in DOMAIN SP.atoms : SP.atoms[s].ty.el = RP.atoms[r].ty.el /\ SP.atoms[s].pos = RP.atoms[r].pos}
      D == {r \in DOMAIN RP.atoms : cand(r) # {}}
  IN [r \in D |-> Min(cand(r))]

\* ---- matches: m = [keys |-> structure atom keys in search-pattern order, mp |-> their positions at the matched images]
MatchOf(K, f) ==   \* f = [t |-> 1-based atom indices, ns |-> lattice triples]
  [keys |-> [i \in DOMAIN f.t |-> KeyAt(K, f.t[i] - 1)],
   mp   |-> [i \in DOMAIN f.t |-> VAdd3(K.pos[f.t[i]], Lat(K.cell, <<f.ns[i][1], f.ns[i][2], f.ns[i][3]>>))]]

\* proper cube rotations carrying the search pattern onto the match
PosesFor(SP, m) ==
  {M \in Rot24 : \A i \in DOMAIN m.mp :
       MApply(M, VSub3(SP.atoms[i].pos, SP.atoms[1].pos)) = VSub3(m.mp[i], m.mp[1])}

\* the replacement pattern in the frame of match m under rotation M, wrapped into the cell
PosedRP(cell, SP, RP, m, M) ==
  LET place(p) == Wrap(cell, VAdd3(MApply(M, VSub3(p, SP.atoms[1].pos)), m.mp[1]))
      pk(kk) == <<kk[1], place(kk[2])>>
  IN [atoms |-> [r \in DOMAIN RP.atoms |-> [RP.atoms[r] EXCEPT !.pos = place(@)]],
      terms |-> [k \in Kinds |-> {[t EXCEPT !.a = Canon(k, [p \in 1..Arity(k) |-> pk(t.a[p])])] : t \in RP.terms[k]}],
      cnt |-> RP.cnt, cell |-> RP.cell]

DelSet(m, ret, replace_all) ==
  IF replace_all THEN Range(m.keys) ELSE Range(m.keys) \ {m.keys[ret[r]] : r \in DOMAIN ret}

\* fold over the selected matches (ms: sequence of matches, Ms: sequence of chosen rotations)
RECURSIVE InsertAll(_, _, _, _, _, _, _)
InsertAll(A, SP, RP, ms, Ms, ret, replace_all) ==
  IF ms = <<>> THEN A
  ELSE LET m == Head(ms)
           F == PosedRP(A.cell, SP, RP, m, Head(Ms))
           map == IF replace_all THEN << >> ELSE [r \in DOMAIN ret |-> m.keys[ret[r]]]
       IN InsertAll(ExtendA(A, F, map), SP, RP, Tail(ms), Tail(Ms), ret, replace_all)

Overlapping(ms, ret, replace_all) ==
  \E a, b \in DOMAIN ms : a # b /\ DelSet(ms[a], ret, replace_all) \cap DelSet(ms[b], ret, replace_all) # {}

\* nearest integers to (fn/fd) * n
IsNearest(k, fn, fd, n) == LET d == k * fd - fn * n IN (IF d < 0 THEN -d ELSE d) * 2 <= fd

\* rows of the replacement pattern that are inserted (not retained)
InsertedIdx(RP, ret, replace_all) == IF replace_all THEN DOMAIN RP.atoms ELSE DOMAIN RP.atoms \ DOMAIN ret

\* the pose of a match is not determined by the search pattern when its atoms are collinear (or one atom) and
\* some inserted atom lies off that line: any rotation about the line is then a correct placement, the
\* inserted coordinates are not lattice points and exact comparison does not apply
OnLine(SP, p) ==
  LET o == SP.atoms[1].pos
      far == {i \in DOMAIN SP.atoms : SP.atoms[i].pos # o}
  IN IF far = {} THEN p = o
     ELSE Cross3(VSub3(SP.atoms[Min(far)].pos, o), VSub3(p, o)) = <<0, 0, 0>>
Collinear(SP) == \A i \in DOMAIN SP.atoms : OnLine(SP, SP.atoms[i].pos)
PoseUnderdetermined(SP, RP, ret, rall) ==
  Collinear(SP) /\ \E r \in InsertedIdx(RP, ret, rall) : ~OnLine(SP, RP.atoms[r].pos)

SeqOfSet(S) == LET RECURSIVE F(_)
                   F(T) == IF T = {} THEN <<>> ELSE LET x == Min(T) IN <<x>> \o F(T \ {x})
               IN F(S)

---------------------------------------------------------------------------
(* Judging one observed call.  e carries:                                   *)
(*   pre, sp, rp (K values), found (sequence of [t, ns]), fn, fd,           *)
(*   replace_all, ignore ("yes"/"no"), post (K), count, exc, src_same, wf   *)
(* The expected result exists for some selection of the right size and, per *)
(* selected match, some proper pose; the selection is read off the observed *)
(* result (which matched atoms are gone) and then *checked*, never trusted. *)
RpIds(e) == Range(e.rp.q)

NormKey(cell, ids, kk) == IF kk[1] \in ids /\ cell # <<>> THEN <<kk[1], Wrap(cell, kk[2])>> ELSE kk
NormRows(cell, ids, A) ==   \* inserted atoms are compared modulo the lattice
  [A EXCEPT !.atoms = [i \in DOMAIN A.atoms |-> [A.atoms[i] EXCEPT !.pos = NormKey(cell, ids, <<A.atoms[i].id, @>>)[2]]],
            !.terms = [k \in Kinds |-> {[t EXCEPT !.a = Canon(k, [p \in 1..Arity(k) |-> NormKey(cell, ids, t.a[p])])] : t \in A.terms[k]}]]

JudgeReplaceExact(e) ==
  LET S  == Abs(e.pre)
      SP == AbsT(e.sp, "sp")
      RP == AbsT(e.rp, "new")
      n  == Len(e.found)
      ms == [a \in 1..n |-> MatchOf(e.pre, e.found[a])]
      rall == e.replace_all = "yes"
      ret == Retained(SP, RP)
      empty == Len(RP.atoms) = 0
      Y0 == Abs(e.post)
      ids == RpIds(e)
      Y  == NormRows(S.cell, ids, Y0)
      missing == Keys(S) \ Keys(Y0)                                               \* structure atoms that are gone
      delOf(a) == IF empty THEN Range(ms[a].keys) ELSE DelSet(ms[a], ret, rall)
      \* candidate selections: right size, explain exactly the missing atoms (pruning only; each is then checked in full)
      sels == {s \in SUBSET (1..n) : /\ IsNearest(Cardinality(s), e.fn, e.fd, n) /\ Cardinality(s) = e.count
                                     /\ UNION {delOf(a) : a \in s} = missing}
      \* the matches are processed in an order the library is free to choose (it samples them at random): where two
      \* replaced matches share a retained atom and give it different types, either type is a correct result
      expectedO(sq) ==
        LET s == Range(sq)
            msel == [j \in DOMAIN sq |-> ms[sq[j]]]
            Ms == [j \in DOMAIN sq |->
                     LET P == PosesFor(SP, msel[j])
                         good == {M \in P : \A r \in InsertedIdx(RP, ret, rall) :
                                     <<RP.atoms[r].id, PosedRP(S.cell, SP, RP, msel[j], M).atoms[r].pos>> \in Keys(Y)}
                     IN IF good # {} THEN CHOOSE M \in good : TRUE ELSE CHOOSE M \in P : TRUE]
            dels == UNION {DelSet(msel[j], ret, rall) : j \in DOMAIN sq}
        IN IF empty THEN DeleteA(S, UNION {Range(msel[j].keys) : j \in DOMAIN sq})
           ELSE DeleteA(InsertAll(S, SP, RP, msel, Ms, ret, rall), dels)
      expected(s) == expectedO(SeqOfSet(s))
      ordersOf(c) == IF Cardinality(c) \in 2..3 THEN {f \in [1..Cardinality(c) -> c] : \A a, b \in 1..Cardinality(c) : a # b => f[a] # f[b]}
                     ELSE {SeqOfSet(c)}
      overlap(s) == ~empty /\ Overlapping([j \in DOMAIN SeqOfSet(s) |-> ms[SeqOfSet(s)[j]]], ret, rall)
      sizes == {k \in 0..n : IsNearest(k, e.fn, e.fd, n)}
  IN IF e.pre.wf # "ok" \/ ~WFK(e.pre) THEN "blocked:pre-state-malformed"
     ELSE IF e.src_same # "yes" THEN "inputs-unmodified"
     ELSE IF \E a \in 1..n : PosesFor(SP, ms[a]) = {} THEN "blocked:match-not-a-cube-pose"

     ELSE IF e.exc = "AtomsShouldNotBeDeletedTwice" THEN
        \* legitimate iff the caller did not ask to ignore it and some allowed selection overlaps
        (IF e.ignore = "yes" THEN "overlap-error-although-ignored"
         ELSE IF \E s \in SUBSET (1..n) : Cardinality(s) \in sizes /\ overlap(s) THEN "ok"
         ELSE "overlap-error-without-overlap")
     ELSE IF e.exc # "none" THEN "no-exception"
     ELSE IF e.wf # "ok" THEN "projection"
     ELSE IF ~WFK(e.post) THEN "one-entry-per-atom-and-term"
     ELSE IF e.count \notin sizes THEN "replaced-count-is-nearest-integer"
     ELSE IF sels = {} THEN "only-selected-matches-are-replaced"
     ELSE IF e.ignore # "yes" /\ \A s \in sels : overlap(s) THEN "overlap-not-refused"
     ELSE
       LET cands == UNION {{<<c, o>> : o \in ordersOf(c)} : c \in sels}
           pick == IF \E p \in cands : NormBag(expectedO(p[2])) = NormBag(Y) THEN CHOOSE p \in cands : NormBag(expectedO(p[2])) = NormBag(Y)
                   ELSE CHOOSE p \in cands : p[2] = SeqOfSet(p[1])
           s == pick[1]
           X == expectedO(pick[2])
           NX == NormA(X)
           NY == NormA(Y)
           newrows == {r \in Range(Y0.atoms) : r.id \in ids /\ Key(r) \notin Keys(S)}
       IN IF e.ignore = "yes" /\ overlap(s) THEN "ok"     \* the caller asked for it; nothing is promised about the result
          ELSE IF \E a, b \in DOMAIN X.atoms : a # b /\ Key(X.atoms[a]) = Key(X.atoms[b])
               THEN "blocked:two-matches-insert-the-same-atom-at-the-same-place"   \* identities by (id, position) break down
          ELSE IF Len(Y.atoms) # Len(X.atoms) THEN "atom-count"
          ELSE IF {r.id : r \in Range(Y.atoms)} # {r.id : r \in Range(X.atoms)}
                  \/ SeqToBag([i \in DOMAIN Y.atoms |-> Y.atoms[i].id]) # SeqToBag([i \in DOMAIN X.atoms |-> X.atoms[i].id])
               THEN "which-atoms-removed-and-inserted"
          ELSE IF {Key(r) : r \in Range(Y.atoms)} # {Key(r) : r \in Range(X.atoms)} THEN
               (IF {Key(r) : r \in {r \in Range(Y.atoms) : r.id \notin ids}} # {Key(r) : r \in {r \in Range(X.atoms) : r.id \notin ids}}
                THEN "bystander-position" ELSE "inserted-atoms-placement")
          ELSE IF S.cell # <<>> /\ \E r \in newrows : ~InsideClosed(S.cell, r.pos) THEN "inserted-inside-cell"
          ELSE IF SeqToBag(Y.atoms) # SeqToBag(X.atoms) THEN
               (IF \A r \in Range(Y.atoms) : \E q \in Range(X.atoms) : Key(r) = Key(q) /\ r.ty = q.ty THEN "atoms-data"
                ELSE IF \E r \in Range(Y.atoms) : \A q \in Range(X.atoms) : Key(r) = Key(q) => r.ty.el # q.ty.el THEN "atoms-element"
                ELSE "atoms-type-meaning")
          ELSE IF \E k \in Kinds : Y.cnt[k] # Cardinality(Y.terms[k]) THEN "term-listed-twice"
          ELSE IF NY.terms["bond"] # NX.terms["bond"] THEN "bonds"
          ELSE IF NY.terms["angle"] # NX.terms["angle"] THEN "angles"
          ELSE IF NY.terms["dihedral"] # NX.terms["dihedral"] THEN "dihedrals"
          ELSE IF NY.terms["improper"] # NX.terms["improper"] THEN "impropers"
          ELSE IF Y.cell # X.cell THEN "cell"
          ELSE IF ~ConsistentA(Y) THEN "consistent"
          ELSE "ok"
(* When the pose of a match is not determined by the search pattern (collinear / single-atom pattern with off-axis  *)
(* replacement atoms) every rotation about the axis is a correct placement and the inserted coordinates need not   *)
(* be lattice points.  Such a call is accepted when the exact judgement accepts it (the library often uses the      *)
(* identity or a cube rotation there).  Otherwise it is judged through rotation-invariant data.  The inserted       *)
(* atoms appear in the result in blocks (one per replaced match, replacement-pattern order inside a block); for     *)
(* every (match a, block b) the harness reports the squared distances and signed volumes of                        *)
(*      matched positions of a  ++  inserted atoms of b (nearest images)                                            *)
(* rounded to lattice units (e.und).  The property: for every replaced match there is a block whose data equal      *)
(* those of search pattern ++ inserted replacement atoms (a proper rigid image), and different matches own          *)
(* different blocks.  In e.postu the inserted atoms of block b carry the placeholder position                       *)
(* <<1000 + b, 0, replacement index>>; the expected value built here uses the block owned by the match.             *)
Placeholder(b, r) == <<1000 + b, 0, r>>
PlaceRP(RP, I, b) ==
  LET ph(kk) == IF \E r \in I : Key(RP.atoms[r]) = kk THEN <<kk[1], Placeholder(b, CHOOSE r \in I : Key(RP.atoms[r]) = kk)>> ELSE kk
  IN [atoms |-> [r \in DOMAIN RP.atoms |-> IF r \in I THEN [RP.atoms[r] EXCEPT !.pos = Placeholder(b, r)] ELSE RP.atoms[r]],
      terms |-> [k \in Kinds |-> {[t EXCEPT !.a = Canon(k, [p \in 1..Arity(k) |-> ph(t.a[p])])] : t \in RP.terms[k]}],
      cnt |-> RP.cnt, cell |-> RP.cell]
RECURSIVE InsertAllPh(_, _, _, _, _, _, _)
InsertAllPh(A, RP, I, ms, blocks, ret, replace_all) ==
  IF ms = <<>> THEN A
  ELSE LET m == Head(ms)
           map == IF replace_all THEN << >> ELSE [r \in DOMAIN ret |-> m.keys[ret[r]]]
       IN InsertAllPh(ExtendA(A, PlaceRP(RP, I, Head(blocks)), map), RP, I, Tail(ms), Tail(blocks), ret, replace_all)

GramOK(SP, RP, Iseq, g) ==      \* g = [a, b, rp, d2, det, res, inside]
  LET pts == [i \in 1..(Len(SP.atoms) + Len(Iseq)) |-> IF i <= Len(SP.atoms) THEN SP.atoms[i].pos ELSE RP.atoms[Iseq[i - Len(SP.atoms)]].pos]
      n == Len(pts)
  IN /\ g.res = "ok" /\ g.rp = Iseq /\ Len(g.d2) = n
     /\ \A i, j \in 1..n : g.d2[i][j] = D2(pts[i], pts[j])
     \* equal distances fix the shape up to a mirror image; the orientation of every non-planar quadruple excludes the mirror
     /\ \A q \in Range(g.det) : LET pd == Det3(VSub3(pts[q[2]], pts[q[1]]), VSub3(pts[q[3]], pts[q[1]]), VSub3(pts[q[4]], pts[q[1]]))
                                 IN pd # 0 => q[5] * pd > 0

JudgeReplaceUnd(e) ==
  LET S == Abs(e.pre)   SP == AbsT(e.sp, "sp")   RP == AbsT(e.rp, "new")
      n == Len(e.found)
      ms == [a \in 1..n |-> MatchOf(e.pre, e.found[a])]
      rall == e.replace_all = "yes"
      ret == Retained(SP, RP)
      I == InsertedIdx(RP, ret, rall)
      Iseq == SeqOfSet(I)
      Y == Abs(e.post)
      ids == RpIds(e)
      missing == Keys(S) \ Keys(Y)
      sizes == {k \in 0..n : IsNearest(k, e.fn, e.fd, n)}
      sels == {s \in SUBSET (1..n) : /\ Cardinality(s) \in sizes /\ Cardinality(s) = e.count
                                     /\ UNION {DelSet(ms[a], ret, rall) : a \in s} = missing}
      overlap(s) == Overlapping([j \in DOMAIN SeqOfSet(s) |-> ms[SeqOfSet(s)[j]]], ret, rall)
      fits(a) == {g.b : g \in {g \in Range(e.und) : g.a = a /\ GramOK(SP, RP, Iseq, g)}}
      \* which block belongs to which replaced match is not observable: every injective assignment of fitting blocks is tried
      \* (the selection itself is not observable either when nothing is deleted: every selection of the right size is tried)
      assigns(c) == IF Cardinality(c) > 4 \/ e.nblocks > 6
                    THEN (IF \A a \in c : Cardinality(fits(a)) = 1 THEN {[a \in c |-> CHOOSE b \in fits(a) : TRUE]} ELSE {})
                    ELSE {f \in [c -> 1..e.nblocks] : (\A a \in c : f[a] \in fits(a)) /\ (\A a, b \in c : a # b => f[a] # f[b])}
      toobig(c) == (Cardinality(c) > 4 \/ e.nblocks > 6) /\ \E a \in c : Cardinality(fits(a)) > 1
      expectedF(c, f) == LET sq == SeqOfSet(c)
                         IN DeleteA(InsertAllPh(S, RP, I, [j \in DOMAIN sq |-> ms[sq[j]]], [j \in DOMAIN sq |-> f[sq[j]]], ret, rall),
                                    UNION {DelSet(ms[sq[j]], ret, rall) : j \in DOMAIN sq})
      \* nearest images are the right images only while every inserted atom is closer to its anchor than half a cell width
      \* (each inserted atom is imaged next to the search-pattern atom it is closest to in the pattern; first such atom)
      near2 == {LET ds == {D2(RP.atoms[r].pos, SP.atoms[i].pos) : i \in DOMAIN SP.atoms} IN CHOOSE x \in ds : \A y \in ds : x <= y : r \in I}
      m2 == CHOOSE x \in near2 : \A y \in near2 : y <= x
      cr == {Norm2(Cross3(S.cell[2], S.cell[3])), Norm2(Cross3(S.cell[1], S.cell[3])), Norm2(Cross3(S.cell[1], S.cell[2]))}
      det == CellDet(S.cell)
      roomy == S.cell = <<>> \/ (IF det > 1500 THEN \A c \in cr : det > 2 * (ISqrt(m2 * c) + 1)
                                 ELSE \A c \in cr : 49 * det * det > 200 * m2 * c)     \* width^2 > 4 * m2 * 50/49
  IN IF e.exc # "none" \/ e.nblocks < 0 \/ ~roomy THEN "blocked:pose-underdetermined-with-off-axis-atoms"
     ELSE IF e.wf # "ok" THEN "projection"
     ELSE IF ~WFK(e.post) THEN "one-entry-per-atom-and-term"
     ELSE IF e.count \notin sizes THEN "replaced-count-is-nearest-integer"
     ELSE IF sels = {} THEN "only-selected-matches-are-replaced"
     ELSE IF e.ignore # "yes" /\ \A s \in sels : overlap(s) THEN "overlap-not-refused"
     ELSE LET Compare(X) ==
                LET NX == NormA(X)   NY == NormA(Y)
                IN IF Len(Y.atoms) # Len(X.atoms) THEN "atom-count"
                   ELSE IF SeqToBag([i \in DOMAIN Y.atoms |-> Y.atoms[i].id]) # SeqToBag([i \in DOMAIN X.atoms |-> X.atoms[i].id]) THEN "which-atoms-removed-and-inserted"
                   ELSE IF {Key(r) : r \in Range(Y.atoms)} # {Key(r) : r \in Range(X.atoms)} THEN
                        (IF {Key(r) : r \in {r \in Range(Y.atoms) : r.id \notin ids}} # {Key(r) : r \in {r \in Range(X.atoms) : r.id \notin ids}}
                         THEN "bystander-position" ELSE "which-atoms-removed-and-inserted")
                   ELSE IF SeqToBag(Y.atoms) # SeqToBag(X.atoms) THEN
                        (IF \A r \in Range(Y.atoms) : \E q \in Range(X.atoms) : Key(r) = Key(q) /\ r.ty = q.ty THEN "atoms-data"
                         ELSE IF \E r \in Range(Y.atoms) : \A q \in Range(X.atoms) : Key(r) = Key(q) => r.ty.el # q.ty.el THEN "atoms-element"
                         ELSE "atoms-type-meaning")
                   ELSE IF \E k \in Kinds : Y.cnt[k] # Cardinality(Y.terms[k]) THEN "term-listed-twice"
                   ELSE IF NY.terms["bond"] # NX.terms["bond"] THEN "bonds"
                   ELSE IF NY.terms["angle"] # NX.terms["angle"] THEN "angles"
                   ELSE IF NY.terms["dihedral"] # NX.terms["dihedral"] THEN "dihedrals"
                   ELSE IF NY.terms["improper"] # NX.terms["improper"] THEN "impropers"
                   ELSE IF Y.cell # X.cell THEN "cell"
                   ELSE IF ~ConsistentA(Y) THEN "consistent"
                   ELSE "ok"
              VerdictOf(c) ==
                IF e.ignore = "yes" /\ overlap(c) THEN "ok"
                ELSE IF e.ignore # "yes" /\ overlap(c) THEN "overlap-not-refused"
                ELSE IF e.nblocks # Cardinality(c) THEN "which-atoms-removed-and-inserted"
                ELSE IF toobig(c) THEN "blocked:pose-underdetermined-and-blocks-ambiguous"
                ELSE IF assigns(c) = {} THEN "inserted-atoms-placement"
                ELSE IF S.cell # <<>> /\ \E g \in Range(e.und) : g.inside # "yes" THEN "inserted-inside-cell"
                ELSE IF \E f \in assigns(c) : Compare(expectedF(c, f)) = "ok" THEN "ok"
                ELSE Compare(expectedF(c, CHOOSE f \in assigns(c) : TRUE))
          IN IF \E c \in sels : VerdictOf(c) = "ok" THEN "ok"
             ELSE IF \E c \in sels : VerdictOf(c) = "blocked:pose-underdetermined-and-blocks-ambiguous" THEN "blocked:pose-underdetermined-and-blocks-ambiguous"
             \* report the verdict of a selection that at least has a fitting block for every match, if there is one
             ELSE IF \E c \in sels : ~overlap(c) /\ assigns(c) # {} THEN VerdictOf(CHOOSE c \in sels : ~overlap(c) /\ assigns(c) # {})
             ELSE VerdictOf(CHOOSE c \in sels : TRUE)

JudgeReplace(e) ==
  LET v == JudgeReplaceExact(e)
      SP == AbsT(e.sp, "sp")   RP == AbsT(e.rp, "new")
      und == Len(e.found) > 0 /\ Len(RP.atoms) > 0 /\ PoseUnderdetermined(SP, RP, Retained(SP, RP), e.replace_all = "yes")
  IN IF v = "ok" \/ ~und THEN v
     ELSE IF v \in {"projection", "atom-count", "inserted-atoms-placement", "inserted-inside-cell", "atoms-data", "atoms-element", "atoms-type-meaning",
                    "term-listed-twice", "bonds", "angles", "dihedrals", "impropers", "consistent", "which-atoms-removed-and-inserted",
                    "blocked:two-matches-insert-the-same-atom-at-the-same-place"}
          THEN JudgeReplaceUnd([e EXCEPT !.post = e.postu, !.wf = e.wfu])
     ELSE v
=============================================================================
