-------------------------------- MODULE MC_Cli --------------------------------
(***************************************************************************)
(* Option sets for C20: every combination of input format, output format,   *)
(* mode (find+replace / find only / convert only) and up to MaxOpts of the   *)
(* non-default options, each with a non-default value.                      *)
(***************************************************************************)
EXTENDS Cli, Json
CONSTANTS MaxOpts, Emit
VARIABLES o
vars == <<o>>
OptNames == {"atol", "fraction", "hints", "replicate", "mic", "charges", "pp", "uc"}
Hints == {<<0, 1, 2>>, <<1, 0, 2>>, <<2, 0, 1>>}
Init == \E inp \in {"lmpdat", "cif", "cml"}, outp \in {"lmpdat", "cif"}, mode \in {"replace", "find", "convert"} :
        \E S \in {S \in SUBSET OptNames : Cardinality(S) <= MaxOpts} :
        \E h \in Hints, d \in {<<2,1,1>>, <<1,2,1>>, <<1,1,2>>, <<2,1,2>>}, f \in {<<1,2>>, <<0,1>>, <<1,3>>} :
          /\ (inp = "cml") = ("uc" \in S)                         \* a CML molecule has no cell: it needs --extract-uc, the others do not
          /\ (mode # "replace" => S \cap {"fraction", "hints"} = {})
          /\ (mode = "convert" => "atol" \notin S)
          /\ ("hints" \notin S => h = <<0,1,2>>) /\ ("replicate" \notin S => d = <<2,1,1>>) /\ ("fraction" \notin S => f = <<1,2>>)
          /\ o = [input |-> inp, output |-> outp, find |-> IF mode = "convert" THEN "no" ELSE "yes", replace |-> IF mode = "replace" THEN "yes" ELSE "no",
                  atol |-> IF "atol" \in S THEN 1500 ELSE 500, fn |-> IF "fraction" \in S THEN f[1] ELSE 1, fd |-> IF "fraction" \in S THEN f[2] ELSE 1,
                  hints |-> IF "hints" \in S THEN h ELSE <<None, None, None>>,
                  replicate |-> IF "replicate" \in S THEN d ELSE <<0,0,0>>, mic2 |-> IF "mic" \in S THEN 250000 ELSE 0,
                  pp |-> IF "pp" \in S THEN "yes" ELSE "no", uc |-> IF "uc" \in S THEN "yes" ELSE "no",
                  charges |-> IF "charges" \in S THEN "yes" ELSE "no", celldiag |-> <<96000, 112000, 128000>>]
Next == UNCHANGED o
Spec == Init /\ [][Next]_vars
ModelInv == ReplicateBeforeReplace(o) /\ Expected(o)[1].what = "input" /\ Expected(o)[Len(Expected(o))].name = "save"
EmitInv == Emit => PrintT(<<"OPTS", ToJson(o)>>)
=============================================================================
