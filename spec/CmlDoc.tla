------------------------------- MODULE CmlDoc -------------------------------
(***************************************************************************)
(* C16: a CML molecule document (Avogadro flavour) and what loading it must *)
(* give.  A document is                                                    *)
(*   [atoms |-> Seq([id, el, x, y, z]),  bonds |-> Seq([a, b, order])]      *)
(* where id / a / b are id strings and x, y, z are coordinate tokens        *)
(* [text, num, e]: the text written in the file and its exact value         *)
(* num * 10^e.                                                             *)
(*                                                                         *)
(* Load(doc): one atom per atom entry in document order with the stated     *)
(* element and coordinates; one bond per bond entry joining the atoms named *)
(* by its references (by id, never by position or spelling of the id).      *)
(***************************************************************************)
EXTENDS Integers, Sequences, FiniteSets, TLC

IdxOfId(doc, id) == CHOOSE i \in 1..Len(doc.atoms) : doc.atoms[i].id = id

Load(doc) ==
  [els   |-> [i \in 1..Len(doc.atoms) |-> doc.atoms[i].el],
   pos   |-> [i \in 1..Len(doc.atoms) |-> <<doc.atoms[i].x.num, doc.atoms[i].y.num, doc.atoms[i].z.num>>],
   bonds |-> [n \in 1..Len(doc.bonds) |-> <<IdxOfId(doc, doc.bonds[n].a) - 1, IdxOfId(doc, doc.bonds[n].b) - 1>>]]

WellFormed(doc) ==
  /\ Len(doc.atoms) >= 1
  /\ \A i, j \in 1..Len(doc.atoms) : i # j => doc.atoms[i].id # doc.atoms[j].id
  /\ \A n \in 1..Len(doc.bonds) : /\ \E i \in 1..Len(doc.atoms) : doc.atoms[i].id = doc.bonds[n].a
                                 /\ \E i \in 1..Len(doc.atoms) : doc.atoms[i].id = doc.bonds[n].b
                                 /\ doc.bonds[n].a # doc.bonds[n].b

\* obs: [exc, els, pos (integers in the units 10^e of the corresponding token), res ("ok" or complaint), bonds, same]
JudgeLoad(doc, obs) ==
  LET X == Load(doc)
  IN IF obs.exc # "none" THEN "no-exception"
     ELSE IF Len(obs.els) # Len(X.els) THEN "one-atom-per-entry"
     ELSE IF obs.els # X.els THEN "elements-in-document-order"
     ELSE IF obs.res # "ok" THEN "coordinates"
     ELSE IF obs.pos # X.pos THEN "coordinates"
     ELSE IF Len(obs.bonds) # Len(X.bonds) THEN "one-bond-per-entry"
     ELSE IF \E n \in 1..Len(X.bonds) : {obs.bonds[n][1], obs.bonds[n][2]} # {X.bonds[n][1], X.bonds[n][2]} THEN "bond-joins-referenced-atoms"
     ELSE IF obs.same # "yes" THEN "path-and-file-object-agree"
     ELSE "ok"
=============================================================================
