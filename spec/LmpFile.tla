------------------------------ MODULE LmpFile ------------------------------
(***************************************************************************)
(* C13 (and the Writable half of C09): what a LAMMPS data file written from *)
(* a structure must state, and what reading it back must give.             *)
(*                                                                         *)
(* K is the K-level value of the structure (AtomsAbs), su the number of     *)
(* micro-Angstrom per lattice unit of the rendering, T the coefficient      *)
(* tables of K split into tokens and trailing comment by the harness's own  *)
(* tokenizer.  F is the written text parsed by that same independent        *)
(* tokenizer (never by mofun's reader):                                     *)
(*   counts, types (0 = line absent), box, tilt, sections, masses, pair,    *)
(*   bondco .. improperco, atoms, bond .. improper.                         *)
(* K2 is the K-level value of the structure read back by mofun.             *)
(***************************************************************************)
EXTENDS AtomsAbs

Max0(S) == IF S = {} THEN -1 ELSE CHOOSE x \in S : \A y \in S : y <= x
NTypes(T, tyseq) == IF Len(T) > 0 THEN Len(T) ELSE Max0({tyseq[n] : n \in DOMAIN tyseq}) + 1

Ortho(c) == c[1][2] = 0 /\ c[1][3] = 0 /\ c[2][1] = 0 /\ c[2][3] = 0 /\ c[3][1] = 0 /\ c[3][2] = 0
LammpsOriented(c) == c = <<>> \/ (c[1][2] = 0 /\ c[1][3] = 0 /\ c[2][3] = 0)

CoKey(k) == CASE k = "bond" -> "bondco" [] k = "angle" -> "angleco" [] k = "dihedral" -> "dihedralco" [] k = "improper" -> "improperco"
Plural(k) == CASE k = "bond" -> "bonds" [] k = "angle" -> "angles" [] k = "dihedral" -> "dihedrals" [] k = "improper" -> "impropers"

\* header counts = contents (also required of any file by C09's Writable)
CountsMatch(F) ==
  /\ F.counts["atoms"] = Len(F.atoms)
  /\ \A k \in Kinds : F.counts[Plural(k)] = Len(F[k])
  /\ F.types["atom"] = Len(F.masses)
  /\ (Len(F.pair) > 0 => Len(F.pair) = F.types["atom"])
  /\ \A n \in DOMAIN F.atoms : F.atoms[n][3] >= 1 /\ F.atoms[n][3] <= F.types["atom"]
  /\ \A k \in Kinds :
       /\ (Len(F[CoKey(k)]) > 0 => Len(F[CoKey(k)]) = F.types[k])
       /\ \A n \in DOMAIN F[k] : F[k][n][2] >= 1 /\ F[k][n][2] <= F.types[k]
       /\ \A n \in DOMAIN F[k] : \A p \in 3..(2 + Arity(k)) : F[k][n][p] >= 1 /\ F[k][n][p] <= Len(F.atoms)

JudgeWrite(K, su, T, style, F) ==
  LET n == Len(K.q)
  IN IF F.counts["atoms"] # n \/ \E k \in Kinds : F.counts[Plural(k)] # Len(K[k].ix) THEN "header-counts"
     ELSE IF F.types["atom"] # Len(K.tel) THEN "atom-type-count"
     ELSE IF \E k \in Kinds : F.types[k] # NTypes(K[k].co, K[k].ty) THEN "term-type-count"
     ELSE IF ~CountsMatch(F) THEN "declared-counts-match-contents"
     ELSE IF K.cell # <<>> /\ F.box # <<0, K.cell[1][1] * su, 0, K.cell[2][2] * su, 0, K.cell[3][3] * su>> THEN "box"
     ELSE IF K.cell # <<>> /\ F.tilt # (IF Ortho(K.cell) THEN <<>> ELSE <<K.cell[2][1] * su, K.cell[3][1] * su, K.cell[3][2] * su>>) THEN "tilt-factors"
     ELSE IF F.masses # [t \in 1..Len(K.tel) |-> <<t, K.tmass[t], K.tlab[t]>>] THEN "masses-and-type-labels"
     ELSE IF F.pair # [t \in 1..Len(K.tpc) |-> <<t, T.tpc[t][1], T.tpc[t][2]>>] THEN "pair-coeffs"
     ELSE IF \E k \in Kinds : F[CoKey(k)] # [t \in 1..Len(K[k].co) |-> <<t, T[k][t][1], T[k][t][2]>>] THEN "term-coeffs"
     ELSE IF Len(F.atoms) # n THEN "atoms-section"
     ELSE IF \E i \in 1..n : F.atoms[i] # (IF style = "full"
                                         THEN <<i, K.grp[i] + 1, K.ty[i] + 1, K.q[i] * 15625, K.pos[i][1] * su, K.pos[i][2] * su, K.pos[i][3] * su>>
                                         ELSE <<i, 1, K.ty[i] + 1, 0, K.pos[i][1] * su, K.pos[i][2] * su, K.pos[i][3] * su>>) THEN "atoms-section"
     ELSE IF \E k \in Kinds : F[k] # [m \in 1..Len(K[k].ix) |-> <<m, K[k].ty[m] + 1>> \o [p \in 1..Arity(k) |-> K[k].ix[m][p] + 1]] THEN "term-sections"
     ELSE "ok"

\* reading back: everything the format stores is reproduced; extra columns are not stored; coefficient entries token for token
JudgeRead(K, T, style, K2, T2) ==
  IF K2.wf # "ok" THEN "reread-projection"
  ELSE IF K2.ty # K.ty THEN "reread-atom-types-and-order"
  ELSE IF K2.pos # K.pos THEN "reread-positions"
  ELSE IF K2.cell # K.cell THEN "reread-cell"
  ELSE IF style = "full" /\ K2.q # K.q THEN "reread-charges"
  ELSE IF style = "full" /\ K2.grp # K.grp THEN "reread-molecule-groups"
  ELSE IF K2.tmass # K.tmass THEN "reread-masses"
  ELSE IF K2.tlab # K.tlab THEN "reread-type-labels"
  ELSE IF K2.tel # K.tel THEN "reread-elements"
  ELSE IF T2.tpc # T.tpc THEN "reread-pair-coeffs"
  ELSE IF \E k \in Kinds : K2[k].ix # K[k].ix \/ K2[k].ty # K[k].ty THEN "reread-terms"
  ELSE IF \E k \in Kinds : T2[k] # T[k] THEN "reread-term-coeffs"
  ELSE "ok"

JudgeLmp(e) ==
  IF e.K.wf # "ok" \/ ~WFK(e.K) THEN "blocked:structure-malformed"
  ELSE IF ~LammpsOriented(e.K.cell) THEN "blocked:cell-not-lammps-oriented"
  ELSE IF e.exc # "none" THEN "no-exception"
  ELSE LET w == JudgeWrite(e.K, e.su, e.T, e.style, e.F)
       IN IF w # "ok" THEN w
          ELSE LET r == JudgeRead(e.K, e.T, e.style, e.K2, e.T2)
               IN IF r # "ok" THEN r
                  ELSE IF e.same_api # "yes" THEN "path-and-file-object-agree"
                  ELSE IF e.stable # "yes" THEN "rewrite-byte-identical"
                  ELSE "ok"
=============================================================================
