------------------------------- MODULE MC_Lmp -------------------------------
(***************************************************************************)
(* Structures for C13 beyond the ones histories produce: every library      *)
(* fragment x cell (none, orthorhombic, tilted with both signs, tilt        *)
(* factors beyond half a box length) x charge sign x coordinates inside /   *)
(* outside / negative x molecule groups (contiguous, with gaps, not         *)
(* starting at 0) x atom style.                                            *)
(***************************************************************************)
EXTENDS LmpFile, Frags, Json
CONSTANTS FragNames, Emit
VARIABLES c
vars == <<c>>

LCell(n) == CASE n = "none" -> <<>>
              [] n = "ortho" -> <<<<8,0,0>>,<<0,9,0>>,<<0,0,10>>>>
              [] n = "tri" -> <<<<8,0,0>>,<<2,9,0>>,<<1,-3,10>>>>
              [] n = "steep" -> <<<<8,0,0>>,<<-5,9,0>>,<<7,-7,10>>>>      \* |xy| > lx/2, |xz| > lx/2, |yz| > ly/2
              \* rendered at 1e-6 Angstrom per unit: a 20 A box whose tilt factors (0.0002, 0, -0.0003) show only in the last printed digits
              [] n = "fine" -> <<<<20000000,0,0>>,<<200,20000000,0>>,<<0,-300,20000000>>>>
              [] n = "alln" -> <<<<8,0,0>>,<<-2,9,0>>,<<-1,-3,10>>>>      \* every tilt factor negative
              [] n = "yzn" -> <<<<8,0,0>>,<<0,9,0>>,<<0,-3,10>>>>        \* only yz, negative
CellNames == {"none", "ortho", "tri", "steep", "alln", "yzn"}
Grp(g, i) == CASE g = "zero" -> 0 [] g = "contig" -> (i % 2) [] g = "gaps" -> 2 * (i % 2) [] g = "high" -> 3 + (i % 2)
Shift(s, p) == CASE s = "in" -> p [] s = "neg" -> <<-p[1], p[2] - 7, -p[3]>> [] s = "far" -> <<p[1] + 20, p[2], p[3] - 30>>

Case(f, cn, g, s, qs) ==
  LET F == Inst(f, 0)
  IN [F EXCEPT !.cell = LCell(cn),
               !.grp = [i \in 1..Len(F.q) |-> Grp(g, i)],
               !.pos = [i \in 1..Len(F.q) |-> Shift(s, F.pos[i])],
               !.q = [i \in 1..Len(F.q) |-> IF qs = "neg" THEN -F.q[i] - 64 ELSE IF qs = "zero" /\ i = 1 THEN 0 ELSE F.q[i]]]   \* "zero": the first atom is neutral

\* twelve atoms, each of its own type, chained by eleven bonds each of its own type: type ids with two digits
Many(style) ==
  LET n == 12
      els == <<"C","N","O","H","F","C","N","O","H","F","C","N">>
  IN [K |-> [ty |-> [i \in 1..n |-> i - 1], q |-> [i \in 1..n |-> i], grp |-> [i \in 1..n |-> i % 3], pos |-> [i \in 1..n |-> <<i, 2 * i, 1>>],
             xa |-> [i \in 1..n |-> <<>>], xal |-> <<>>, tel |-> els, tmass |-> [i \in 1..n |-> MassOf(els[i])],
             tlab |-> [i \in 1..n |-> "M.a" \o ToString(i - 1)], tpc |-> [i \in 1..n |-> "lj/cut 0." \o ToString(i) \o " 3.0 # M.p" \o ToString(i - 1)],
             bond |-> [ix |-> [m \in 1..(n - 1) |-> <<m - 1, m>>], ty |-> [m \in 1..(n - 1) |-> m - 1],
                       co |-> [m \in 1..(n - 1) |-> "harmonic " \o ToString(m) \o ".5 # M.b" \o ToString(m - 1)],
                       xf |-> [m \in 1..(n - 1) |-> <<>>], xl |-> <<>>],
             angle |-> NoTerms, dihedral |-> NoTerms, improper |-> NoTerms, cell |-> LCell("tri")],
      style |-> style, name |-> <<"many-types", "tri", "contig", "in", "pos">>]

Fine(f) == LET F == Case(f, "fine", "contig", "in", "pos")
           IN [F EXCEPT !.pos = [i \in 1..Len(F.pos) |-> <<1000000 * F.pos[i][1], 1000000 * F.pos[i][2], 1000000 * F.pos[i][3]>>]]
Init == \/ \E st \in {"full", "atomic"} : c = Many(st)
        \/ \E f \in FragNames, st \in {"full", "atomic"} : c = [K |-> Fine(f), style |-> st, name |-> <<f, "fine", "contig", "in", "pos">>]
        \/ \E f \in FragNames, cn \in CellNames, g \in {"zero", "contig", "gaps", "high"}, s \in {"in", "neg", "far"}, qs \in {"pos", "neg", "zero"},
           st \in {"full", "atomic"} :
          c = [K |-> Case(f, cn, g, s, qs), style |-> st, name |-> <<f, cn, g, s, qs>>]
Next == UNCHANGED c
Spec == Init /\ [][Next]_vars
ModelInv == WFK(c.K) /\ LammpsOriented(c.K.cell) /\ ConsistentA(Abs(c.K))
EmitInv == Emit => PrintT(<<"CASE", ToJson(c)>>)
=============================================================================
