SPECIFICATION Spec
CONSTANTS
  InitFrags = {"F2p", "F4p", "F2b", "F3x", "E"}
  ExtFrags = {"F1p", "F2p", "F3p", "F2b", "F2y"}
  InitCells = {"none", "tri"}
  MaxAtoms = 8
  MaxDepth = 2
  MaxMap = 1
  MaxDel = 2
  Dims <- DimsQuick
  Emit = FALSE
VIEW view
INVARIANT InvConsistent
INVARIANT EmitInv
PROPERTY DeleteExact
PROPERTY ExtendExact
PROPERTY ReplicateExact
CHECK_DEADLOCK FALSE
