-------------------------------- MODULE Terms --------------------------------
(***************************************************************************)
(* C19: enumeration of angles and dihedrals from a bond list, and typing    *)
(* of bonds / angles / dihedrals by UFF atom-type sequences.                *)
(* A bond list is a sequence of pairs of atom numbers (any order, any       *)
(* direction); the graph is triangle-free and every atom has a bond.        *)
(***************************************************************************)
EXTENDS UffCases

Nodes(B) == UNION {{B[n][1], B[n][2]} : n \in 1..Len(B)}
Adj(B, a, b) == \E n \in 1..Len(B) : (B[n][1] = a /\ B[n][2] = b) \/ (B[n][1] = b /\ B[n][2] = a)
Nbrs(B, a) == {b \in Nodes(B) : Adj(B, a, b)}
RevS(s) == [i \in 1..Len(s) |-> s[Len(s) + 1 - i]]

\* every pair of distinct bonds sharing an atom; every bonded chain i-j-k-l about every bond j-k
DefAngles(B) == {<<a, c, b>> : c \in Nodes(B), a \in Nodes(B), b \in Nodes(B)} \cap
                {t \in Nodes(B) \X Nodes(B) \X Nodes(B) : t[1] # t[3] /\ Adj(B, t[1], t[2]) /\ Adj(B, t[2], t[3])}
DefDihedrals(B) == {t \in Nodes(B) \X Nodes(B) \X Nodes(B) \X Nodes(B) :
                      /\ Adj(B, t[2], t[3]) /\ Adj(B, t[1], t[2]) /\ Adj(B, t[3], t[4])
                      /\ t[1] # t[3] /\ t[4] # t[2] /\ t[1] # t[4]}
\* (the sets above contain each term in both directions)
TriangleFree(B) == \A a, b, c \in Nodes(B) : ~(Adj(B, a, b) /\ Adj(B, b, c) /\ Adj(B, a, c))
Simple(B) == /\ \A n \in 1..Len(B) : B[n][1] # B[n][2]
             /\ \A n, m \in 1..Len(B) : n # m => {B[n][1], B[n][2]} # {B[m][1], B[m][2]}
Deg(B, a) == Cardinality(Nbrs(B, a))

\* obs: sequence of tuples; each term of Def exactly once (in one of its two directions), nothing else
JudgeEnumOne(Def, obs, what) ==
  IF \E n \in 1..Len(obs) : obs[n] \notin Def THEN what \o "-not-a-bonded-chain"
  ELSE IF \E n, m \in 1..Len(obs) : n # m /\ (obs[n] = obs[m] \/ obs[n] = RevS(obs[m])) THEN what \o "-listed-twice"
  ELSE IF \E t \in Def : ~\E n \in 1..Len(obs) : obs[n] = t \/ obs[n] = RevS(t) THEN what \o "-missed"
  ELSE "ok"

JudgeEnum(e) ==
  LET B == e.bonds
      a == JudgeEnumOne(DefAngles(B), e.angles, "angle")
  IN IF e.exc # "none" THEN "no-exception"
     ELSE IF a # "ok" THEN a
     ELSE JudgeEnumOne(DefDihedrals(B), e.dihedrals, "dihedral")

---------------------------------------------------------------------------
(* Typing.  ty[a] is the UFF type name of atom a (atoms are numbered from 0 *)
(* in the bond list, ty is 1-based).  Two terms share a type id exactly when *)
(* their type sequences agree up to reversal (dihedrals: and the number of   *)
(* torsions about the central bond agrees); the coefficient entry of a type  *)
(* id is labelled with that sequence; dihedrals whose torsion is undefined   *)
(* are dropped; terms wholly inside the exclusion set are dropped.          *)
TySeq(ty, t) == [p \in 1..Len(t) |-> ty[t[p] + 1]]
SameKey(s, r) == s = r \/ s = RevS(r)
InExcl(t, X, arity) == Cardinality(X) >= arity /\ \A p \in 1..Len(t) : t[p] \in X
TorsionsAbout(D, j, k) == Cardinality({n \in 1..Len(D) : {D[n][2], D[n][3]} = {j, k}})

JudgeTyped(terms0, ex, ty, arity, obs, what) ==
  \* terms0: the terms before typing; obs: [terms, types, labels (sequence over type ids of type-name sequences), m (per type, dihedrals)]
  LET keep == {n \in 1..Len(terms0) : ~InExcl(terms0[n], ex, arity)}
  IN IF Len(obs.types) # Len(obs.terms) THEN what \o "-one-type-per-term"
     ELSE IF {obs.terms[n] : n \in 1..Len(obs.terms)} # {terms0[n] : n \in keep} \/ Len(obs.terms) # Cardinality(keep) THEN what \o "-exclusion-set"
     ELSE IF \E n \in 1..Len(obs.terms) : obs.types[n] < 0 \/ obs.types[n] >= Len(obs.labels) THEN what \o "-type-id-has-coefficients"
     ELSE IF \E n, m \in 1..Len(obs.terms) :
               (obs.types[n] = obs.types[m]) # SameKey(TySeq(ty, obs.terms[n]), TySeq(ty, obs.terms[m])) THEN what \o "-same-type-iff-same-sequence"
     ELSE IF \E n \in 1..Len(obs.terms) : ~SameKey(obs.labels[obs.types[n] + 1], TySeq(ty, obs.terms[n])) THEN what \o "-coefficients-of-that-sequence"
     ELSE "ok"

JudgeDihedralTyped(D0, ex, ty, obs) ==
  LET defd(t) == Torsion(ByName(ty[t[1] + 1]), ByName(ty[t[2] + 1]), ByName(ty[t[3] + 1]), ByName(ty[t[4] + 1])).def = "harmonic"
      keep == {n \in 1..Len(D0) : ~InExcl(D0[n], ex, 4) /\ defd(D0[n])}
      M(t) == TorsionsAbout(D0, t[2], t[3])
  IN IF Len(obs.types) # Len(obs.terms) THEN "dihedral-one-type-per-term"
     ELSE IF {obs.terms[n] : n \in 1..Len(obs.terms)} # {D0[n] : n \in keep} \/ Len(obs.terms) # Cardinality(keep)
          THEN "dihedral-undefined-torsions-dropped-and-exclusion-set"
     ELSE IF \E n \in 1..Len(obs.terms) : obs.types[n] < 0 \/ obs.types[n] >= Len(obs.labels) THEN "dihedral-type-id-has-coefficients"
     ELSE IF \E n, m \in 1..Len(obs.terms) :
               (obs.types[n] = obs.types[m]) # (SameKey(TySeq(ty, obs.terms[n]), TySeq(ty, obs.terms[m])) /\ M(obs.terms[n]) = M(obs.terms[m]))
          THEN "dihedral-same-type-iff-same-sequence-and-torsion-count"
     ELSE IF \E n \in 1..Len(obs.terms) : ~SameKey(obs.labels[obs.types[n] + 1], TySeq(ty, obs.terms[n])) \/ obs.m[obs.types[n] + 1] # M(obs.terms[n])
          THEN "dihedral-coefficients-of-that-sequence"
     ELSE "ok"

HasUnsupported(e) ==
  \E n \in 1..Len(e.dihedrals) :
     LET t == e.dihedrals[n]
     IN Torsion(ByName(e.ty[t[1] + 1]), ByName(e.ty[t[2] + 1]), ByName(e.ty[t[3] + 1]), ByName(e.ty[t[4] + 1])).def = "unsupported"

JudgeTypes(e) ==
  IF HasUnsupported(e) THEN "blocked:a-torsion-of-this-type-assignment-is-unsupported"     \* outside C19 (see C18)
  ELSE IF e.exc # "none" THEN "no-exception"
  ELSE LET b == JudgeTyped(e.bonds, {x : x \in {e.ex[n] : n \in 1..Len(e.ex)}}, e.ty, 2, e.obonds, "bond")
           X == {e.ex[n] : n \in 1..Len(e.ex)}
       IN IF b # "ok" THEN b
          ELSE LET a == JudgeTyped(e.angles, X, e.ty, 3, e.oangles, "angle")
               IN IF a # "ok" THEN a
                  ELSE LET d == JudgeDihedralTyped(e.dihedrals, X, e.ty, e.odihedrals)
                       IN IF d # "ok" THEN d
                          ELSE IF e.num # "ok" THEN "coefficient-values:" \o e.num
                          ELSE IF e.retype # "ok" THEN "retype-tables-agree-with-types"
                          ELSE "ok"
=============================================================================
