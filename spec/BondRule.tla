------------------------------ MODULE BondRule ------------------------------
(***************************************************************************)
(* C17: bond detection = the minimum-image covalent-radius rule.            *)
(* Positions and cells are integers in units of 0.01 Angstrom; RadiusTable  *)
(* (generated from the repository on every run) gives the radii in the      *)
(* same unit and the set of non-metals.                                     *)
(***************************************************************************)
EXTENDS Lattice, TLC, RadiusTable

Cut(e1, e2) == Radius(e1) + Radius(e2) + (IF e1 \in NonMetals \/ e2 \in NonMetals THEN 45 ELSE 0)
Win(r) == {<<i, j, k>> : i \in (-r)..r, j \in (-r)..r, k \in (-r)..r}
MinOf(S) == CHOOSE x \in S : \A y \in S : x <= y
\* smallest squared distance between atom i (at any lattice image within r cells) and atom j
MinD2(X, i, j, r) == IF X.cell = <<>> THEN D2(X.atoms[i].pos, X.atoms[j].pos)
                     ELSE MinOf({D2(VAdd3(X.atoms[i].pos, Lat(X.cell, n)), X.atoms[j].pos) : n \in Win(r)})
Bonded(X, i, j, r) == LET c == Cut(X.atoms[i].el, X.atoms[j].el) IN MinD2(X, i, j, r) < c * c
DefBonds(X) == {<<i, j>> \in (1..Len(X.atoms)) \X (1..Len(X.atoms)) : i < j /\ Bonded(X, i, j, 2)}
AlgoBonds(X) == {<<i, j>> \in (1..Len(X.atoms)) \X (1..Len(X.atoms)) : i < j /\ Bonded(X, i, j, 1)}   \* the 27 images of the code
\* exactly on the cutoff: decided by floating-point rounding, not generated
Ambiguous(X) == \E i, j \in 1..Len(X.atoms) : i < j /\ LET c == Cut(X.atoms[i].el, X.atoms[j].el) IN MinD2(X, i, j, 2) = c * c

MaxCut(X) == LET S == {Cut(X.atoms[i].el, X.atoms[j].el) : i, j \in 1..Len(X.atoms)} IN CHOOSE m \in S : \A x \in S : x <= m
\* cells are multiples of 50 units; widths are compared in units of 0.5 Angstrom (rounded up cutoff) to stay in 32 bits
Coarse(cell) == [r \in 1..3 |-> <<cell[r][1] \div 50, cell[r][2] \div 50, cell[r][3] \div 50>>]
WidthsOKB(X) == X.cell = <<>> \/ WidthExceeds(Coarse(X.cell), (MaxCut(X) + 49) \div 50, 1)
InsideB(X) == X.cell = <<>> \/ \A a \in 1..Len(X.atoms) : Wrap(X.cell, X.atoms[a].pos) = X.atoms[a].pos

\* obs: sequence of <<i, j>> (0-based) as returned by detect_bonds
JudgeBonds(X, obs, exc) ==
  LET R == {<<obs[n][1] + 1, obs[n][2] + 1>> : n \in 1..Len(obs)}
      G == DefBonds(X)
  IN IF exc # "none" THEN "no-exception"
     ELSE IF \E n \in 1..Len(obs) : ~(obs[n][1] < obs[n][2]) THEN "pairs-listed-with-i-less-than-j"
     ELSE IF Cardinality(R) # Len(obs) THEN "pair-listed-twice"
     ELSE IF \E p \in G : p \notin R THEN "bond-missed"
     ELSE IF \E p \in R : p \notin G THEN "spurious-bond"
     ELSE "ok"

\* two atoms on a line parallel to x, positions in units of 1e-6 A (no squares: the numbers are too large for them)
JudgeNear(X, obs, exc) ==
  LET dx0 == X.atoms[1].pos[1] - X.atoms[2].pos[1]
      dx == IF dx0 < 0 THEN -dx0 ELSE dx0
      d == IF X.cell = <<>> THEN dx ELSE (IF X.cell[1][1] - dx < dx THEN X.cell[1][1] - dx ELSE dx)
      bonded == d < Cut(X.atoms[1].el, X.atoms[2].el) * 10000
  IN IF exc # "none" THEN "no-exception"
     ELSE IF bonded /\ obs # <<<<0, 1>>>> THEN "bond-missed"
     ELSE IF ~bonded /\ obs # <<>> THEN "spurious-bond"
     ELSE "ok"
=============================================================================
