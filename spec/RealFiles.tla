------------------------------ MODULE RealFiles ------------------------------
(***************************************************************************)
(* Relation-level judgements for the repository's real MOF files (C03, C08) *)
(* where the true list of occurrences is unknown: the state is just the set *)
(* of matched atom groups / the rows of a structure; the actions are the    *)
(* representation changes and replacements, and what each must preserve.    *)
(* Atom identities after an operation are recovered by the harness from     *)
(* element + position modulo the lattice and handed over as index maps;     *)
(* TLC checks that they are bijections and decides the relations.           *)
(***************************************************************************)
EXTENDS Integers, Sequences, FiniteSets, TLC

SetOf(s) == {s[i] : i \in 1..Len(s)}
Groups(ms) == {SetOf(ms[i]) : i \in 1..Len(ms)}
NoDup(ms) == Cardinality(Groups(ms)) = Len(ms)
RevS(s) == [i \in 1..Len(s) |-> s[Len(s) + 1 - i]]

\* e: [rel, base, after, map, mult, n]
JudgeGroups(e) ==
  IF e.exc # "none" THEN "no-exception"
  \* (the counts first: they are cheap, and a badly wrong answer can be thousands of groups long)
  ELSE IF e.rel \in {"same", "perm"} /\ Len(e.after) # Len(e.base) THEN (IF e.rel = "same" THEN "groups-unchanged-under-" \o e.what ELSE "groups-follow-the-renaming")
  ELSE IF e.rel \notin {"same", "perm"} /\ Len(e.after) # e.mult * Len(e.base) THEN "supercell-count-is-a-times-b-times-c"
  ELSE IF ~NoDup(e.after) THEN "group-reported-twice"
  ELSE IF e.rel = "same" THEN
       (IF Groups(e.after) = Groups(e.base) THEN "ok" ELSE "groups-unchanged-under-" \o e.what)
  ELSE IF e.rel = "perm" THEN          \* map[a+1] = new number of old atom a
       (IF Groups(e.after) = {{e.map[a + 1] : a \in g} : g \in Groups(e.base)} THEN "ok" ELSE "groups-follow-the-renaming")
  ELSE \* replicate: map[b+1] = original atom of supercell atom b
       LET fold(g) == {e.map[b + 1] : b \in g}
       IN IF Len(e.after) # e.mult * Len(e.base) THEN "supercell-count-is-a-times-b-times-c"
          ELSE IF \E g \in Groups(e.after) : fold(g) \notin Groups(e.base) \/ Cardinality(fold(g)) # Cardinality(g) THEN "supercell-group-is-an-image-of-a-unit-cell-group"
          ELSE IF \E h \in Groups(e.base) : Cardinality({g \in Groups(e.after) : fold(g) = h}) # e.mult THEN "every-occurrence-once-per-image"
          ELSE "ok"

\* rows: sequences of <<el, x, y, z, q, grp>> (integers / strings), ident[b+1] = index (0-based) in `before` of atom b of `after`
Canon(t) == IF t[Len(t)] < t[1] THEN RevS(t) ELSE t
MapTuples(ts, ident) == {Canon([p \in 1..Len(ts[n]) |-> ident[ts[n][p] + 1]]) : n \in 1..Len(ts)}
Tuples(ts) == {Canon(ts[n]) : n \in 1..Len(ts)}

JudgeSelf(e) ==
  LET n == Len(e.before)
  IN IF e.exc # "none" THEN "no-exception"
     ELSE IF Len(e.after) # n THEN "atom-count-unchanged"
     ELSE IF \E b \in 1..n : e.ident[b] < 0 THEN "every-atom-keeps-its-position-and-element"
     ELSE IF Cardinality({e.ident[b] : b \in 1..n}) # n THEN "every-atom-keeps-its-position-and-element"
     ELSE IF \E b \in 1..n : e.after[b] # e.before[e.ident[b] + 1] THEN "element-charge-group-unchanged"
     ELSE IF MapTuples(e.bonds_after, e.ident) # Tuples(e.bonds_before) THEN "bonded-tuples-unchanged"
     ELSE IF MapTuples(e.angles_after, e.ident) # Tuples(e.angles_before) THEN "angle-tuples-unchanged"
     ELSE IF MapTuples(e.dihedrals_after, e.ident) # Tuples(e.dihedrals_before) THEN "torsion-tuples-unchanged"
     ELSE "ok"

\* substitution A -> B -> A: rows are <<el, x, y, z>>; the structure held no B before
Bag(s) == [x \in SetOf(s) |-> Cardinality({i \in 1..Len(s) : s[i] = x})]
JudgeBack(e) ==
  IF e.exc # "none" THEN "no-exception"
  ELSE IF e.nB_before # 0 THEN "blocked:structure-already-contains-the-substitute"
  ELSE IF e.n1 # e.nA THEN "all-sites-substituted"
  ELSE IF e.n2 # e.n1 THEN "all-sites-substituted-back"
  ELSE IF Bag(e.rows_after) # Bag(e.rows_before) THEN "element-position-multiset-restored"
  ELSE IF e.found_again # 0 THEN "no-match-after-replacing-all"
  ELSE "ok"

(***************************************************************************)
(* A recorded answer of the search on a floating-point structure (inputs of *)
(* the repository's own tests).  matches[m] = reported index tuple;        *)
(* rms[m] = root-mean-square deviation (micro-Angstrom, rounded up) of the  *)
(* best PROPER rigid fit of the pattern onto those atoms at their best      *)
(* periodic images.  "Every atom within atol after one proper rotation plus *)
(* translation" implies rms <= atol for the best fit, so rms > atol refutes *)
(* the match (a mirror image of a chiral pattern has a large proper-fit     *)
(* residual).  rot_rms[m]: the same for the RETURNED rotation with the best *)
(* translation, against the returned positions.                             *)
(***************************************************************************)
JudgeFit(e) ==
  LET M == 1..Len(e.matches)
  IN IF e.exc # "none" THEN "no-exception"
     ELSE IF e.widths_ok # "yes" THEN "blocked:cell-not-wider-than-pattern-plus-twice-the-tolerance"
     ELSE IF e.inside # "yes" THEN "blocked:atoms-outside-the-cell"
     ELSE IF \E m \in M : Len(e.matches[m]) # e.npat THEN "match-has-one-atom-per-pattern-atom"
     ELSE IF \E m \in M : \E k \in 1..e.npat : e.matches[m][k] < 0 \/ e.matches[m][k] >= e.natoms THEN "index-is-an-existing-atom"
     ELSE IF \E m \in M : Cardinality(SetOf(e.matches[m])) # e.npat THEN "atom-listed-twice-in-a-match"
     ELSE IF \E m \in M : e.el_ok[m] # "yes" THEN "elements-in-pattern-order"
     ELSE IF \E m \in M : e.rms[m] > e.atol THEN "not-a-proper-rigid-image-within-tolerance"
     ELSE IF \E m \in M : e.rpos_ok[m] = "no" THEN "position-is-stored-plus-lattice-vector"
     ELSE IF \E m \in M : e.rot_rms[m] > e.atol THEN "returned-rotation-carries-pattern-onto-returned-positions"
     ELSE IF ~NoDup(e.matches) THEN "group-reported-twice"
     ELSE "ok"

Judge(e) == IF e.kind = "groups" THEN JudgeGroups(e) ELSE IF e.kind = "self" THEN JudgeSelf(e)
            ELSE IF e.kind = "fit" THEN JudgeFit(e) ELSE JudgeBack(e)
=============================================================================
