------------------------------ MODULE Lattice ------------------------------
(***************************************************************************)
(* Exact geometry over Z^3 for periodic crystals: vectors, integer cells    *)
(* (rows are cell vectors), lattice translations, exact wrapping,          *)
(* perpendicular widths, the proper rotations of the cube, and rotation-   *)
(* free congruence (equal squared distances + equal orientation signs).    *)
(***************************************************************************)
EXTENDS Integers, Sequences, FiniteSets

VAdd3(p, r) == <<p[1] + r[1], p[2] + r[2], p[3] + r[3]>>
VSub3(p, r) == <<p[1] - r[1], p[2] - r[2], p[3] - r[3]>>
VMul3(c, p) == <<c * p[1], c * p[2], c * p[3]>>
Dot3(p, r) == p[1] * r[1] + p[2] * r[2] + p[3] * r[3]
Cross3(p, r) == <<p[2] * r[3] - p[3] * r[2], p[3] * r[1] - p[1] * r[3], p[1] * r[2] - p[2] * r[1]>>
Norm2(p) == Dot3(p, p)
D2(p, r) == Norm2(VSub3(p, r))
Det3(a, b, c) == Dot3(a, Cross3(b, c))

\* matrix (3 rows) applied to a column vector
MApply(M, p) == <<Dot3(M[1], p), Dot3(M[2], p), Dot3(M[3], p)>>

\* lattice vector n1*A + n2*B + n3*C of a cell with rows A, B, C
Lat(cell, n) == VAdd3(VAdd3(VMul3(n[1], cell[1]), VMul3(n[2], cell[2])), VMul3(n[3], cell[3]))

CellDet(cell) == Det3(cell[1], cell[2], cell[3])

\* floor division for any sign of numerator, positive denominator
FloorDiv(a, b) == IF a >= 0 THEN a \div b ELSE -(((-a) + b - 1) \div b)

\* det * fractional coordinates of p: p = (f1*A + f2*B + f3*C), f_i = num_i / det
FracNum(cell, p) ==
  LET A == cell[1]  B == cell[2]  C == cell[3]
  IN <<Det3(p, B, C), Det3(A, p, C), Det3(A, B, p)>>

\* the lattice image of p inside the cell (fractional coordinates in [0,1)); cells here have det > 0
WrapN(cell, p) == LET d == CellDet(cell)  f == FracNum(cell, p)
                  IN <<FloorDiv(f[1], d), FloorDiv(f[2], d), FloorDiv(f[3], d)>>
Wrap(cell, p) == VSub3(p, Lat(cell, WrapN(cell, p)))
InsideClosed(cell, p) == LET d == CellDet(cell)  f == FracNum(cell, p)
                         IN \A i \in 1..3 : 0 <= f[i] /\ f[i] <= d

\* squared perpendicular widths times squared areas: width_i^2 = det^2 / |cross of the two others|^2
\* Width_i > w  <=>  det^2 > w^2 * |cross|^2   (w rational wn/wd)
WidthExceeds(cell, wn, wd) ==
  LET d == CellDet(cell)
      c1 == Norm2(Cross3(cell[2], cell[3]))
      c2 == Norm2(Cross3(cell[1], cell[3]))
      c3 == Norm2(Cross3(cell[1], cell[2]))
  IN \A c \in {c1, c2, c3} : d * d * wd * wd > wn * wn * c

\* the same for big cells (det^2 would overflow 32 bits): sufficient condition det * wd > wn * (floor(sqrt(cross^2)) + 1)
RECURSIVE BSqrt(_, _, _)
BSqrt(c, lo, hi) == IF lo = hi THEN lo ELSE LET m == (lo + hi + 1) \div 2 IN IF m * m <= c THEN BSqrt(c, m, hi) ELSE BSqrt(c, lo, m - 1)
ISqrt(c) == BSqrt(c, 0, 46340)      \* floor of the square root (32-bit range)
WidthExceedsBig(cell, wn, wd) ==
  LET d == CellDet(cell)
      c1 == Norm2(Cross3(cell[2], cell[3]))
      c2 == Norm2(Cross3(cell[1], cell[3]))
      c3 == Norm2(Cross3(cell[1], cell[2]))
  IN \A c \in {c1, c2, c3} : d * wd > wn * (ISqrt(c) + 1)

---------------------------------------------------------------------------
(* The 24 proper rotations of the cube: signed permutation matrices with    *)
(* determinant +1; the 24 improper ones have determinant -1.               *)
Perms3 == {<<1,2,3>>, <<1,3,2>>, <<2,1,3>>, <<2,3,1>>, <<3,1,2>>, <<3,2,1>>}
Signs3 == {<<a, b, c>> : a \in {-1, 1}, b \in {-1, 1}, c \in {-1, 1}}
UnitRow(i, s) == <<IF i = 1 THEN s ELSE 0, IF i = 2 THEN s ELSE 0, IF i = 3 THEN s ELSE 0>>
SignedPerm(p, s) == <<UnitRow(p[1], s[1]), UnitRow(p[2], s[2]), UnitRow(p[3], s[3])>>
AllSignedPerms == {SignedPerm(p, s) : p \in Perms3, s \in Signs3}
Rot24 == {M \in AllSignedPerms : Det3(M[1], M[2], M[3]) = 1}
Mirror24 == {M \in AllSignedPerms : Det3(M[1], M[2], M[3]) = -1}

---------------------------------------------------------------------------
(* Rotation-free congruence of two point sequences of equal length.        *)
GramCongruent(P, Q) ==
  /\ Len(P) = Len(Q)
  /\ \A i, j \in 1..Len(P) : i < j => D2(P[i], P[j]) = D2(Q[i], Q[j])
  /\ \A i, j, k, l \in 1..Len(P) : (i < j /\ j < k /\ k < l) =>
        Det3(VSub3(P[j], P[i]), VSub3(P[k], P[i]), VSub3(P[l], P[i])) =
        Det3(VSub3(Q[j], Q[i]), VSub3(Q[k], Q[i]), VSub3(Q[l], Q[i]))

\* same distances, some orientation sign differs: a mirror image of a chiral configuration
MirrorOnly(P, Q) ==
  /\ Len(P) = Len(Q)
  /\ \A i, j \in 1..Len(P) : i < j => D2(P[i], P[j]) = D2(Q[i], Q[j])
  /\ ~GramCongruent(P, Q)

\* congruence witnessed by a cube rotation (used to cross-check GramCongruent on lattice configurations)
RotCongruent(P, Q) ==
  /\ Len(P) = Len(Q)
  /\ \E M \in Rot24 : \A i \in 1..Len(P) : MApply(M, VSub3(P[i], P[1])) = VSub3(Q[i], Q[1])

Diameter2(P) == LET S == {D2(P[i], P[j]) : i, j \in 1..Len(P)} IN CHOOSE m \in S : \A x \in S : x <= m
=============================================================================
