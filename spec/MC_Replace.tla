----------------------------- MODULE MC_Replace -----------------------------
(***************************************************************************)
(* Bookkeeping of replace_pattern_in_structure, exhausted with a stubbed    *)
(* search (C04, C06, C07): TLC enumerates                                   *)
(*   - structures made of translated copies of a search pattern laid out    *)
(*     so that copies may share atoms (chains), with pre-existing bonds and *)
(*     angles inside, outside and across the copies and a bystander atom,   *)
(*     with or without coefficient tables;                                  *)
(*   - replacement patterns: empty, smaller, equal, larger, with / without  *)
(*     shared atoms, with their own terms and coefficient tables, terms     *)
(*     that duplicate existing structure terms forwards and backwards;      *)
(*   - the list of matches handed to the replacement (any sub-list, any     *)
(*     order), the fraction, replace_all, the ignore flag.                  *)
(* Every combination is emitted with complete K-level values; the harness   *)
(* runs the real function with the search stubbed to return that list.      *)
(* The model itself is checked for the overlap rule and for consistency of  *)
(* the specified result.                                                    *)
(***************************************************************************)
EXTENDS Replace, Json

CONSTANTS SPNames, Flavours, MaxCopies, Fracs, Emit

At(e, x, y, z) == [el |-> e, pos |-> <<x, y, z>>]
Els == <<"C", "H", "N", "O", "F", "Zr", "Si">>     \* the last type is used by no structure (only by patterns)
ElIdx(e) == CHOOSE i \in 1..Len(Els) : Els[i] = e
MassOf(e) == CASE e = "H" -> 1007940 [] e = "C" -> 12010700 [] e = "N" -> 14006700 [] e = "O" -> 15999400
               [] e = "F" -> 18998403 [] e = "Si" -> 28085500 [] e = "Zr" -> 91224000

SPdef(s) == CASE s = "CH"  -> <<At("C",0,0,0), At("H",1,0,0)>>
              [] s = "NCN" -> <<At("N",0,0,0), At("C",1,0,0), At("N",2,0,0)>>
              [] s = "CCH" -> <<At("C",0,0,0), At("C",1,0,0), At("H",1,1,0)>>
              [] s = "CHN" -> <<At("C",0,0,0), At("H",0,1,0), At("N",1,0,0)>>

\* replacement patterns: atoms, bonds, angles (0-based indices into atoms)
RPnames(s) == CASE s = "CH"  -> {"CF", "COH", "E", "N1", "HC"}
                [] s = "NCN" -> {"NSiN", "NSiNr", "NSiO", "OSiO", "E"}
                [] s = "CCH" -> {"CCF", "CCHa", "CCHm", "E"}
                [] s = "CHN" -> {"HCF", "CHF"}
RPdef(r) ==
  CASE r = "E"    -> [atoms |-> <<>>, bonds |-> <<>>, angles |-> <<>>]
    [] r = "CF"   -> [atoms |-> <<At("C",0,0,0), At("F",1,0,0)>>, bonds |-> <<<<0,1>>>>, angles |-> <<>>]
    [] r = "COH"  -> [atoms |-> <<At("C",0,0,0), At("O",1,0,0), At("H",2,0,0)>>, bonds |-> <<<<0,1>>, <<2,1>>>>, angles |-> <<<<0,1,2>>>>]
    [] r = "N1"   -> [atoms |-> <<At("N",0,0,0)>>, bonds |-> <<>>, angles |-> <<>>]
    [] r = "HC"   -> [atoms |-> <<At("H",1,0,0), At("C",0,0,0)>>, bonds |-> <<<<0,1>>>>, angles |-> <<>>]   \* same atoms, other order, bond listed backwards
    [] r = "NSiN" -> [atoms |-> <<At("N",0,0,0), At("Si",1,0,0), At("N",2,0,0)>>, bonds |-> <<<<0,1>>, <<1,2>>>>, angles |-> <<<<2,1,0>>>>]
    [] r = "NSiNr" -> [atoms |-> <<At("N",2,0,0), At("Si",1,0,0), At("N",0,0,0)>>, bonds |-> <<<<0,1>>, <<1,2>>>>, angles |-> <<<<0,1,2>>>>]  \* shared atoms listed in the other order
    [] r = "CCHa" -> [atoms |-> <<At("C",0,0,0), At("C",1,0,0), At("H",1,1,0)>>, bonds |-> <<<<1,0>>>>, angles |-> <<<<2,1,0>>>>]   \* all atoms retained; one angle redeclared backwards
    [] r = "CCHm" -> [atoms |-> <<At("C",0,0,0), At("C",1,0,0), At("H",1,1,0)>>, bonds |-> <<<<0,1>>, <<2,1>>>>, angles |-> <<<<0,1,2>>>>]   \* all atoms retained; two existing bonds redeclared, one in each direction
    [] r = "HCF"  -> [atoms |-> <<At("H",0,1,0), At("C",0,0,0), At("F",1,0,0)>>, bonds |-> <<<<1,2>>>>, angles |-> <<<<0,1,2>>>>]   \* shared atoms in another order
    [] r = "CHF"  -> [atoms |-> <<At("C",0,0,0), At("H",0,1,0), At("F",1,0,0)>>, bonds |-> <<<<0,2>>>>, angles |-> <<>>]
    [] r = "NSiO" -> [atoms |-> <<At("N",0,0,0), At("Si",1,0,0), At("O",2,0,0)>>, bonds |-> <<<<0,1>>, <<1,2>>>>, angles |-> <<<<0,1,2>>>>]
    [] r = "OSiO" -> [atoms |-> <<At("O",0,0,0), At("Si",1,0,0), At("O",2,0,0)>>, bonds |-> <<<<0,1>>, <<1,2>>>>, angles |-> <<>>]
    [] r = "CCF"  -> [atoms |-> <<At("C",0,0,0), At("C",1,0,0), At("F",1,1,0)>>, bonds |-> <<<<1,0>>, <<1,2>>>>, angles |-> <<<<0,1,2>>>>]

\* where copies of the search pattern may be put; (2,0,0) apart: NCN copies share their end atoms
\* (the fifth placement is the pattern turned by 180 degrees about y at the origin: it shares the atoms on the y axis)
Offsets == <<<<0,0,0>>, <<2,0,0>>, <<0,2,0>>, <<4,0,0>>, <<0,0,0>>>>
Turn(c, p) == IF c = 5 THEN <<-p[1], p[2], -p[3]>> ELSE p
TheCell == <<<<9,0,0>>, <<0,8,0>>, <<0,0,7>>>>

NoT == [ix |-> <<>>, ty |-> <<>>, co |-> <<>>, xf |-> <<>>, xl |-> <<>>]
Coeffs(tag, kc, n, fl) == IF fl = "p" THEN [t \in 1..n |-> "harmonic " \o ToString(t) \o ".25 # " \o tag \o "." \o kc \o ToString(t-1)] ELSE <<>>

\* K-level value from atoms / bonds / angles; every bond gets type (index mod 2), angles type 0
MkK(tag, atoms, bonds, angles, id0, grp, fl, cell) ==
  [ty |-> [i \in 1..Len(atoms) |-> ElIdx(atoms[i].el) - 1], q |-> [i \in 1..Len(atoms) |-> id0 + i],
   grp |-> [i \in 1..Len(atoms) |-> grp], pos |-> [i \in 1..Len(atoms) |-> atoms[i].pos],
   xa |-> [i \in 1..Len(atoms) |-> <<>>], xal |-> <<>>,
   tel |-> Els, tmass |-> [t \in 1..Len(Els) |-> MassOf(Els[t])],
   tlab |-> [t \in 1..Len(Els) |-> tag \o "." \o Els[t]],
   tpc |-> IF fl = "p" THEN [t \in 1..Len(Els) |-> "lj/cut 0." \o ToString(t) \o " 3.0 # " \o tag \o ".p" \o ToString(t-1)] ELSE <<>>,
   bond |-> IF bonds = <<>> THEN NoT
            ELSE [ix |-> bonds, ty |-> [n \in 1..Len(bonds) |-> (n - 1) % 2], co |-> Coeffs(tag, "b", 3, fl),   \* type 2 declared, unused
                  xf |-> [n \in 1..Len(bonds) |-> <<>>], xl |-> <<>>],
   \* a parameterised structure without angles still carries its angle coefficient table (a kind of term that is empty,
   \* e.g. emptied by an earlier replacement, while its table is not)
   angle |-> IF angles = <<>> THEN (IF tag = "S" /\ fl = "p" THEN [NoT EXCEPT !.co = Coeffs(tag, "n", 2, fl)] ELSE NoT)
             ELSE [ix |-> angles, ty |-> [n \in 1..Len(angles) |-> 0], co |-> Coeffs(tag, "n", 2, fl),   \* type 1 declared, unused
                   xf |-> [n \in 1..Len(angles) |-> <<>>], xl |-> <<>>],
   dihedral |-> NoT, improper |-> NoT, cell |-> cell, wf |-> "ok"]

\* ---- the structure for a layout (sequence of offset numbers) ------------------------------------------------
RECURSIVE Dedup(_, _)
Dedup(acc, rest) == IF rest = <<>> THEN acc
                    ELSE IF \E i \in 1..Len(acc) : acc[i] = Head(rest) THEN Dedup(acc, Tail(rest))
                    ELSE Dedup(Append(acc, Head(rest)), Tail(rest))
RECURSIVE Cat(_)
Cat(ss) == IF ss = <<>> THEN <<>> ELSE Head(ss) \o Cat(Tail(ss))

Shifted(P, c) == LET o == Offsets[c]
                IN [i \in 1..Len(P) |-> LET q == Turn(c, P[i].pos) IN At(P[i].el, q[1] + o[1] + 3, q[2] + o[2] + 1, q[3] + o[3] + 1)]
StructAtoms(s, lay) == Dedup(<<At("Zr", 3, 0, 1)>>, Cat([c \in 1..Len(lay) |-> Shifted(SPdef(s), lay[c])]))
IdxOf(atoms, a) == CHOOSE i \in 1..Len(atoms) : atoms[i] = a
CopyTuple(s, lay, c) == LET A == StructAtoms(s, lay) IN [i \in 1..Len(SPdef(s)) |-> IdxOf(A, Shifted(SPdef(s), lay[c])[i])]

\* pre-existing terms: in every copy a bond between its atoms 1-2 (listed backwards in every second copy) and, for
\* three-atom patterns, the angle 1-2-3; a bond from the bystander Zr to the first atom of the first copy
RECURSIVE DedupTerms(_, _)
DedupTerms(acc, rest) == IF rest = <<>> THEN acc
                         ELSE IF \E i \in 1..Len(acc) : acc[i] = Head(rest) \/ acc[i] = Rev(Head(rest)) THEN DedupTerms(acc, Tail(rest))
                         ELSE DedupTerms(Append(acc, Head(rest)), Tail(rest))
StructBonds(s, lay) == DedupTerms(<<>>,
  <<<<0, CopyTuple(s, lay, 1)[1] - 1>>>> \o
  [c \in 1..Len(lay) |-> LET t == CopyTuple(s, lay, c) IN IF c % 2 = 1 THEN <<t[1] - 1, t[2] - 1>> ELSE <<t[2] - 1, t[1] - 1>>] \o
  \* three-atom patterns: also the bond 2-3 of every copy (always listed forwards)
  (IF Len(SPdef(s)) < 3 THEN <<>> ELSE [c \in 1..Len(lay) |-> LET t == CopyTuple(s, lay, c) IN <<t[2] - 1, t[3] - 1>>]))
StructAngles(s, lay) ==
  IF Len(SPdef(s)) < 3 THEN <<>>
  ELSE DedupTerms(<<>>, Cat([c \in 1..Len(lay) |-> LET t == CopyTuple(s, lay, c)
                                   IN <<<<t[1] - 1, t[2] - 1, t[3] - 1>>, <<t[2] - 1, t[3] - 1, t[1] - 1>>>>]))   \* same atoms, permuted
\* flavours: "p" both sides carry coefficient tables, "b" neither does, "m" the documented CIF workflow: the
\* structure has atom types but no pair-coefficient table and no terms, the replacement pattern is parameterised
StructK(s, lay, fl) == IF fl = "d" THEN MkK("S", StructAtoms(s, lay), StructBonds(s, lay), StructAngles(s, lay), 0, 0, "p", TheCell)
                       ELSE IF fl = "m" THEN MkK("S", StructAtoms(s, lay), <<>>, <<>>, 0, 0, "b", TheCell)
                       ELSE MkK("S", StructAtoms(s, lay), StructBonds(s, lay), StructAngles(s, lay), 0, 0, fl, TheCell)
\* flavour "d": force-field style type tables that list every element under two type ids (the same table in both
\* patterns); the first atom of the replacement pattern uses the second id of its element, the search pattern the first
Double(K, S) == [K EXCEPT !.tel = K.tel \o K.tel, !.tmass = K.tmass \o K.tmass,
                          !.tlab = K.tlab \o [t \in 1..Len(K.tlab) |-> K.tlab[t] \o "2"],
                          !.tpc = IF K.tpc = <<>> THEN <<>> ELSE K.tpc \o [t \in 1..Len(K.tpc) |-> K.tpc[t] \o " second"],
                          !.ty = [i \in 1..Len(K.ty) |-> IF i \in S THEN K.ty[i] + Len(K.tel) ELSE K.ty[i]]]
SPK(s, fl) == LET K == MkK("SP", SPdef(s), <<>>, <<>>, 100, 3, "b", <<>>) IN IF fl = "d" THEN Double(K, {}) ELSE K
RPK(r, fl) == IF RPdef(r).atoms = <<>>
              THEN [MkK("RP", <<>>, <<>>, <<>>, 200, 5, "b", <<>>) EXCEPT !.tel = <<>>, !.tmass = <<>>, !.tlab = <<>>]   \* Atoms()
              ELSE LET K == MkK("RP", RPdef(r).atoms, RPdef(r).bonds, RPdef(r).angles, 200, 5, IF fl \in {"m", "d"} THEN "p" ELSE fl, <<>>)
                   \* bare flavour: the replacement pattern carries an extra per-atom column the structure does not have (as a
                   \* pattern loaded from CIF does); the structure's atoms get '.' in it
                   IN IF fl = "d" THEN Double(K, {1})
                      ELSE IF fl = "b" THEN [K EXCEPT !.xal = <<"_occ">>, !.xa = [i \in 1..Len(K.q) |-> <<"0." \o ToString(i)>>]]
                      ELSE K

FracsQ == {<<1, 1>>, <<1, 2>>, <<0, 1>>}
FracsT == {<<1, 1>>, <<1, 2>>, <<1, 3>>, <<2, 3>>, <<1, 4>>, <<0, 1>>}
Layouts == {<<1>>, <<1, 2>>, <<1, 3>>, <<1, 5>>, <<1, 2, 4>>, <<1, 2, 3>>}
Orders(n) == IF n = 1 THEN {<<1>>} ELSE IF n = 2 THEN {<<1, 2>>, <<2, 1>>, <<1>>, <<2>>}
             ELSE {<<1, 2, 3>>, <<3, 1, 2>>, <<2, 3>>, <<1, 3>>, <<2>>}

VARIABLES req
vars == <<req>>
Init == \E s \in SPNames, fl \in Flavours, lay \in {l \in Layouts : Len(l) <= MaxCopies} :
        \E r \in RPnames(s), ord \in Orders(Len(lay)), f \in Fracs, rall \in {"yes", "no"}, ign \in {"yes", "no"} :
          req = [s |-> s, r |-> r, fl |-> fl, lay |-> lay, ord |-> ord, fn |-> f[1], fd |-> f[2], rall |-> rall, ign |-> ign]
Next == UNCHANGED req
Spec == Init /\ [][Next]_vars

FoundOf(q) == [a \in 1..Len(q.ord) |-> [t |-> CopyTuple(q.s, q.lay, q.ord[a]), ns |-> [i \in 1..Len(SPdef(q.s)) |-> <<0, 0, 0>>],
                                        lat |-> "ok", rot |-> 0]]
\* flavour "f" (fine): the parameterised request on a lattice twenty times finer (rendered at a twentieth of the scale, so
\* the geometry is the same), with the second atom of the replacement pattern moved by ONE fine unit along x (about
\* 0.05 A): an atom that is almost, but not, where the search pattern has it is not a common atom - it is removed and
\* the pattern's atom inserted at its own place
FineK(K) == [K EXCEPT !.pos = [i \in 1..Len(K.pos) |-> <<20 * K.pos[i][1], 20 * K.pos[i][2], 20 * K.pos[i][3]>>],
                      !.cell = IF K.cell = <<>> THEN <<>> ELSE [r \in 1..3 |-> <<20 * K.cell[r][1], 20 * K.cell[r][2], 20 * K.cell[r][3]>>]]
Nudge(K) == IF Len(K.pos) < 2 THEN K ELSE [K EXCEPT !.pos[2] = <<K.pos[2][1] + 1, K.pos[2][2], K.pos[2][3]>>]
Event(q) == IF q.fl = "f"
            THEN [kind |-> "replace", pre |-> FineK(StructK(q.s, q.lay, "p")), sp |-> FineK(SPK(q.s, "p")), rp |-> Nudge(FineK(RPK(q.r, "p"))),
                  found |-> FoundOf(q), stub |-> "yes", fn |-> q.fn, fd |-> q.fd, replace_all |-> q.rall, ignore |-> q.ign,
                  rotbound |-> 1100, fine |-> 20]
            ELSE
            [kind |-> "replace", pre |-> StructK(q.s, q.lay, q.fl), sp |-> SPK(q.s, q.fl), rp |-> RPK(q.r, q.fl),
             found |-> FoundOf(q), stub |-> "yes", fn |-> q.fn, fd |-> q.fd, replace_all |-> q.rall, ignore |-> q.ign,
             rotbound |-> 1100, fine |-> 1]

\* ---- the specified outcome, on the model --------------------------------------------------------------------
SpecOutcome(q) ==
  LET e == Event(q)
      S == Abs(e.pre)  SP == AbsT(e.sp, "sp")  RP == AbsT(e.rp, "new")
      n == Len(e.found)
      ms == [a \in 1..n |-> MatchOf(e.pre, e.found[a])]
      ret == Retained(SP, RP)
      rall == q.rall = "yes"
      full == [a \in 1..n |-> ms[a]]
      Ms == [a \in 1..n |-> CHOOSE M \in PosesFor(SP, ms[a]) : TRUE]
  IN IF Len(RP.atoms) = 0 THEN [exc |-> "none", obj |-> DeleteA(S, UNION {Range(ms[a].keys) : a \in 1..n})]
     ELSE IF Overlapping(full, ret, rall) /\ q.ign = "no" THEN [exc |-> "AtomsShouldNotBeDeletedTwice", obj |-> EmptyA]
     ELSE [exc |-> "none", obj |-> DeleteA(InsertAll(S, SP, RP, full, Ms, ret, rall), UNION {DelSet(ms[a], ret, rall) : a \in 1..n})]

\* with the full fraction and no overlap the specified result is a consistent structure in which every atom that is
\* only in the search pattern is gone and every atom only in the replacement pattern is there once per match
ModelInv ==
  (req.fn = req.fd) =>
    LET o == SpecOutcome(req)
    IN o.exc = "none" /\ req.ign = "no" =>
         /\ ConsistentA(o.obj) \/ (\E i, j \in DOMAIN o.obj.atoms : (o.obj.atoms[i].ty.pc = "none") # (o.obj.atoms[j].ty.pc = "none"))
         /\ \A k \in Kinds : \A t \in o.obj.terms[k] : TermAtoms(t) \subseteq Keys(o.obj)

EmitInv == Emit => PrintT(<<"REQUEST", ToJson(Event(req))>>)
=============================================================================
