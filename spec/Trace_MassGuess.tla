--------------------------- MODULE Trace_MassGuess ---------------------------
EXTENDS MassGuess, Json, IOUtils
Batch == JsonDeserialize(IOEnv.TRACE_FILE)
VARIABLES i, verdict
vars == <<i, verdict>>
Judge(e) == IF e.kind = "guess" THEN JudgeGuess(e.ms, e.tol, e.els, e.raised)
            ELSE IF e.kind = "cycle" THEN JudgeCycle(e.elin, e.tol, e.els)
            ELSE JudgeLoad(e.ms, e.tol, e.els)
Init == i = 0 /\ verdict = "init"
Next == /\ i = 0 /\ i' \in 1..Len(Batch) /\ verdict' = Judge(Batch[i'])
Spec == Init /\ [][Next]_vars
Report == (i > 0 /\ verdict # "ok") => PrintT(<<"REJECT", i, verdict>>)
=============================================================================
