------------------------------ MODULE UffCases ------------------------------
(***************************************************************************)
(* C18, the discrete half: which functional form / bond order / potential   *)
(* style / periodicity / sign / rule applies to a combination of UFF atom   *)
(* types, as documented (Rappe et al. 1992 as used by the library):         *)
(*  - guessed bond order: 1 if either type is H_, F_, Cl, Br, I_, C_3, N_3,  *)
(*    O_3; 2 for X_2-X_2 and 1.5 for X_R-X_R with the two types identical    *)
(*    and X in {C, N, O}; 1 otherwise; user rules (unordered pair -> order)  *)
(*    take precedence;                                                     *)
(*  - angle: cosine/periodic with (b, n) = (1,1) for theta0 = 180, (-1,3)   *)
(*    for 120, (-1,2) for 90 with a 4-coordinate ("3") centre, (1,4) for     *)
(*    other 90; fourier otherwise;                                          *)
(*  - torsion about j-k: sp3-sp3 n=3 d=1 (both oxygen-group: n=2, V from     *)
(*    2 / 6.8); sp2-sp2 (2 or R) n=2 d=-1; mixed: an sp2 end bonded to an    *)
(*    sp2 centre n=3 d=1 V=2; sp3 oxygen-group centre with a non-oxygen      *)
(*    sp2/R centre n=2 d=1; else n=6 d=-1 V=1; an sp ("1") centre or a       *)
(*    non-main-group centre: no torsion; anything else is unsupported.      *)
(* The numeric values are checked by the harness against an independent     *)
(* evaluator keyed by the rule TLC selects here.                            *)
(***************************************************************************)
EXTENDS Integers, Sequences, FiniteSets, TLC, UffTable

N == Len(UffTypes)
T(i) == UffTypes[i]
ByName(s) == CHOOSE i \in 1..N : UffTypes[i].name = s

\* bond order times two
Single == {"H_", "F_", "Cl", "Br", "I_", "C_3", "N_3", "O_3"}
BondOrder2(a1, a2) ==
  IF a1 \in Single \/ a2 \in Single THEN 2
  ELSE IF a1 = a2 /\ a1 \in {"C_2", "N_2", "O_2"} THEN 4
  ELSE IF a1 = a2 /\ a1 \in {"C_R", "N_R", "O_R"} THEN 3
  ELSE 2

\* user rules: a sequence of [t |-> set of type names, bo2 |-> twice the bond order]; the first rule whose set is exactly
\* the set of the two types of the bond applies (so {X, Y} says nothing about an X-X bond, and {X} is an X-X bond)
RuleOrder2(a1, a2, rules) ==
  LET hits == {n \in 1..Len(rules) : rules[n].t = {a1, a2}}
  IN IF hits = {} THEN BondOrder2(a1, a2) ELSE rules[CHOOSE n \in hits : \A m \in hits : n <= m].bo2

AngleStyle(i) ==   \* i: index of the centre type
  LET th == T(i).theta
  IN IF th = 18000 THEN [style |-> "cosine/periodic", b |-> 1, n |-> 1]
     ELSE IF th = 12000 THEN [style |-> "cosine/periodic", b |-> -1, n |-> 3]
     ELSE IF th = 9000 /\ T(i).h = "3" THEN [style |-> "cosine/periodic", b |-> -1, n |-> 2]
     ELSE IF th = 9000 THEN [style |-> "cosine/periodic", b |-> 1, n |-> 4]
     ELSE [style |-> "fourier", b |-> 0, n |-> 0]

Torsion(i, j, k, l) ==
  LET hj == T(j).h  hk == T(k).h  hi == T(i).h  hl == T(l).h
  IN IF {hj, hk} \subseteq {"3"} THEN
        (IF T(j).g6 /\ T(k).g6 THEN [def |-> "harmonic", n |-> 2, d |-> 1, rule |-> "sp3-oxygen-group"]
         ELSE [def |-> "harmonic", n |-> 3, d |-> 1, rule |-> "sp3-sp3"])
     ELSE IF {hj, hk} \subseteq {"2", "R"} THEN [def |-> "harmonic", n |-> 2, d |-> -1, rule |-> "sp2-sp2"]
     ELSE IF {hj, hk} \subseteq {"2", "R", "3"} THEN
        (IF (hi = "2" /\ hj = "2") \/ (hk = "2" /\ hl = "2") THEN [def |-> "harmonic", n |-> 3, d |-> 1, rule |-> "sp2-end-on-sp2-centre"]
         ELSE IF (hj = "3" /\ T(j).g6 /\ ~T(k).g6) \/ (hk = "3" /\ T(k).g6 /\ ~T(j).g6)
              THEN [def |-> "harmonic", n |-> 2, d |-> 1, rule |-> "sp3-oxygen-group-with-sp2"]
         ELSE [def |-> "harmonic", n |-> 6, d |-> -1, rule |-> "sp2-sp3"])
     ELSE IF "1" \in {hj, hk} THEN [def |-> "none", n |-> 0, d |-> 0, rule |-> "sp-centre"]
     ELSE IF ~(T(j).main /\ T(k).main) THEN [def |-> "none", n |-> 0, d |-> 0, rule |-> "non-main-group"]
     ELSE [def |-> "unsupported", n |-> 0, d |-> 0, rule |-> "unsupported"]

\* model-level properties (checked exhaustively by TLC over the table)
EndReps == {ByName("C_2"), ByName("C_3"), ByName("H_"), ByName("C_R")}      \* the ends matter only through h = "2"
ReversalSymmetric(j, k) ==
  /\ BondOrder2(T(j).name, T(k).name) = BondOrder2(T(k).name, T(j).name)
  /\ \A i, l \in EndReps : Torsion(i, j, k, l) = Torsion(l, k, j, i)
\* one representative end type per distinct hybridisation character of the table
HReps == {CHOOSE i \in 1..N : T(i).h = c : c \in {T(i).h : i \in 1..N}}
EndsOnlyThroughH(j, k) ==
  \A i, l \in HReps : Torsion(i, j, k, l) =
        Torsion(IF T(i).h = "2" THEN ByName("C_2") ELSE ByName("C_3"), j, k, IF T(l).h = "2" THEN ByName("C_2") ELSE ByName("C_3"))

\* judging observed discrete outputs + the harness's numeric comparison flags
JudgeUff(e) ==
  IF e.kind = "bond" THEN
     (IF e.exc # "none" THEN "no-exception"
      ELSE IF e.bo2 # BondOrder2(e.a[1], e.a[2]) THEN "bond-order-guess"
      ELSE IF e.num # "ok" THEN "bond-formula:" \o e.num
      ELSE IF e.sym # "yes" THEN "bond-reversal-symmetry"
      ELSE "ok")
  ELSE IF e.kind = "bondrule" THEN
     LET rules == [n \in DOMAIN e.rules |-> [t |-> {e.rules[n].t[m] : m \in DOMAIN e.rules[n].t}, bo2 |-> e.rules[n].bo2]]
     IN (IF e.exc # "none" THEN "no-exception"
         ELSE IF e.bo2 # RuleOrder2(e.a[1], e.a[2], rules) THEN "bond-order-user-rules"
         ELSE IF e.num # "ok" THEN "rules-formula:" \o e.num
         ELSE IF e.sym # "yes" THEN "bond-reversal-symmetry"
         ELSE "ok")
  ELSE IF e.kind = "angle" THEN
     LET s == AngleStyle(ByName(e.a[2]))
     IN (IF e.exc # "none" THEN "no-exception"
         ELSE IF e.style # s.style THEN "angle-potential-style"
         ELSE IF s.style = "cosine/periodic" /\ (e.b # s.b \/ e.n # s.n) THEN "angle-periodicity-and-sign"
         ELSE IF e.num # "ok" THEN "angle-formula:" \o e.num
         ELSE IF e.sym # "yes" THEN "angle-reversal-symmetry"
         ELSE "ok")
  ELSE IF e.kind = "torsion" THEN
     LET t == Torsion(ByName(e.a[1]), ByName(e.a[2]), ByName(e.a[3]), ByName(e.a[4]))
     IN (IF e.def # t.def THEN "torsion-defined-undefined-unsupported"
         ELSE IF t.def = "harmonic" /\ (e.n # t.n \/ e.d # t.d) THEN "torsion-periodicity-and-sign"
         ELSE IF e.rule # t.rule THEN "blocked:harness-reference-used-another-rule"
         ELSE IF e.num # "ok" THEN "torsion-formula:" \o e.num
         ELSE IF e.sym # "yes" THEN "torsion-reversal-symmetry"
         ELSE "ok")
  ELSE \* pair coefficients
     (IF e.exc # "none" THEN "no-exception" ELSE IF e.num # "ok" THEN "pair-formula:" \o e.num ELSE "ok")
=============================================================================
