-------------------------------- MODULE Find --------------------------------
(***************************************************************************)
(* Occurrences of a pattern in a periodic lattice crystal (C01, C02, C03).  *)
(*                                                                         *)
(* A crystal X is [cell |-> 3 integer rows, atoms |-> Seq([el, pos])], a    *)
(* pattern P is Seq([el, pos]); positions are integer lattice-unit triples. *)
(* An occurrence is defined by exact integer geometry only: distinct atoms  *)
(* with the pattern's elements which, taken at suitable lattice images,     *)
(* have the pattern's squared distances and orientation signs.  There is no *)
(* search algorithm in the definition (DefTuples enumerates candidates by   *)
(* brute force, pruned by distances, over a window of images that is wider  *)
(* than the one the implementation uses).                                  *)
(*                                                                         *)
(* AlgoTuples is the *design* of mofun's search (27 absolute images, start  *)
(* atoms in the home cell, grouping by atom set); TLC checks that it        *)
(* produces exactly DefGroups whenever every perpendicular cell width       *)
(* exceeds the pattern diameter plus twice the tolerance.                   *)
(***************************************************************************)
EXTENDS Lattice, TLC

Window(r) == {<<i, j, k>> : i \in (-r)..r, j \in (-r)..r, k \in (-r)..r}

PatPos(P) == [i \in 1..Len(P) |-> P[i].pos]

\* a site is an atom taken at a lattice image
SiteOf(X, a, n) == [a |-> a, n |-> n, pos |-> VAdd3(X.atoms[a].pos, Lat(X.cell, n)), el |-> X.atoms[a].el]
Sites(X, W) == {SiteOf(X, a, n) : a \in 1..Len(X.atoms), n \in W}
TuplePos(cs) == [i \in 1..Len(cs) |-> cs[i].pos]

\* all complete candidate assignments (sequences of sites) extending `partial`:
\* right element, atom not used yet, squared distances to all earlier ones as in the pattern
RECURSIVE Complete(_, _, _)
Complete(S, P, partial) ==
  LET k == Len(partial) + 1
  IN IF k > Len(P) THEN {partial}
     ELSE UNION {Complete(S, P, Append(partial, s)) :
                   s \in {s \in S : /\ s.el = P[k].el
                                    /\ \A j \in 1..(k-1) : /\ partial[j].a # s.a
                                                           /\ D2(s.pos, partial[j].pos) = D2(P[k].pos, P[j].pos)}}

Proper(P, cs) == GramCongruent(PatPos(P), TuplePos(cs))

\* all distance-consistent candidates: first atom at its stored position, the others within r cells
Candidates(X, P, r) ==
  LET S == Sites(X, Window(r))
  IN UNION {Complete(S, P, <<s>>) : s \in {s \in S : s.n = <<0, 0, 0>> /\ s.el = P[1].el}}

\* occurrences by definition (window of 2 cells, wider than the implementation's)
DefTuplesR(X, P, r) == {cs \in Candidates(X, P, r) : Proper(P, cs)}
DefTuples(X, P) == DefTuplesR(X, P, 2)
GroupOf(cs) == {cs[i].a : i \in 1..Len(cs)}
Groups(T) == {GroupOf(cs) : cs \in T}
DefGroups(X, P) == Groups(DefTuples(X, P))

\* the design of the implementation: images -1..1 only
AlgoTuples(X, P) == {cs \in Candidates(X, P, 1) : Proper(P, cs)}
AlgoGroups(X, P) == Groups(AlgoTuples(X, P))

\* precondition of C01/C02: every perpendicular width > diameter + 2 tol  (tol = tn/td lattice units);
\* checked in squared form with a rational upper bound dn/dd >= diameter + 2 tol
WidthsOK(X, dn, dd) == IF CellDet(X.cell) > 1500 THEN WidthExceedsBig(X.cell, dn, dd) ELSE WidthExceeds(X.cell, dn, dd)
AtomsInside(X) == \A a \in 1..Len(X.atoms) : Wrap(X.cell, X.atoms[a].pos) = X.atoms[a].pos

---------------------------------------------------------------------------
(* Judging an observed answer.  ans is a sequence of matches                *)
(*   [t |-> atom indices (1-based) in pattern order,                        *)
(*    ns |-> lattice vector of each returned position relative to the stored *)
(*           position of the indexed atom (integer triples),                *)
(*    lat |-> "ok" or the projection's complaint (returned position is not   *)
(*           the stored position plus a lattice vector),                    *)
(*    rot |-> max componentwise residual of R*(p_i - p_a) + q_a - q_i in     *)
(*           units of atol/1000 (computed in floating point by the harness)] *)
(* RotBound: 1000 * (1 + allowance for np.allclose's relative term).        *)
\* upper bound on diameter + 2 tol (tol <= 1/16): ceil(sqrt(Diameter2)) + 1/8, as a rational over 8
DiamBoundNum(P) == LET d2 == Diameter2(PatPos(P))
                       r == CHOOSE r \in 0..60 : r * r >= d2 /\ (r = 0 \/ (r - 1) * (r - 1) < d2)
                   IN 8 * r + 1
Precondition(X, P) == AtomsInside(X) /\ WidthsOK(X, DiamBoundNum(P), 8)

(* Under the precondition a site within one pattern diameter of a home-cell atom has a fractional coordinate  *)
(* in (-1, 2) along every axis (|df_i| * width_i <= distance < width_i), so images -1..1 contain every        *)
(* occurrence; the wider window is used whenever the precondition does not hold.  (MC_Find checks            *)
(* Window(1) = Window(2) under the precondition on the model as FindInv.)                                    *)
JudgeAnswer(X, P, ans, RotBound) ==
  LET n == Len(P)
      ok1(m) == /\ Len(m.t) = n /\ Len(m.ns) = n
                /\ \A i \in 1..n : m.t[i] \in 1..Len(X.atoms)
      cs(m) == [i \in 1..n |-> SiteOf(X, m.t[i], <<m.ns[i][1], m.ns[i][2], m.ns[i][3]>>)]
      G == Groups(DefTuplesR(X, P, IF Precondition(X, P) THEN 1 ELSE 2))
      R == {GroupOf(cs(ans[a])) : a \in 1..Len(ans)}
  IN IF \E a \in 1..Len(ans) : ~ok1(ans[a]) THEN "match-shape"
     ELSE IF \E a \in 1..Len(ans) : \E i, j \in 1..n : i # j /\ ans[a].t[i] = ans[a].t[j] THEN "distinct-atoms"
     ELSE IF \E a \in 1..Len(ans) : \E i \in 1..n : X.atoms[ans[a].t[i]].el # P[i].el THEN "elements-in-pattern-order"
     ELSE IF \E a \in 1..Len(ans) : ans[a].lat # "ok" THEN "position-is-stored-plus-lattice-vector"
     ELSE IF \E a \in 1..Len(ans) : \E i, j \in 1..n : i < j /\
                D2(cs(ans[a])[i].pos, cs(ans[a])[j].pos) # D2(P[i].pos, P[j].pos) THEN "distances"
     ELSE IF \E a \in 1..Len(ans) : ~Proper(P, cs(ans[a])) THEN "mirror-image-reported"
     ELSE IF \E a \in 1..Len(ans) : ans[a].rot > RotBound THEN "rotation-carries-pattern-onto-match"
     ELSE IF \E a, b \in 1..Len(ans) : a # b /\ GroupOf(cs(ans[a])) = GroupOf(cs(ans[b])) THEN "group-reported-twice"
     ELSE IF \E g \in G : g \notin R THEN "occurrence-missed"
     ELSE IF \E g \in R : g \notin G THEN "spurious-group"
     ELSE "ok"

---------------------------------------------------------------------------
(* Crystal transformations used by C03                                     *)
ShiftX(X, v) == [X EXCEPT !.atoms = [a \in 1..Len(X.atoms) |-> [X.atoms[a] EXCEPT !.pos = Wrap(X.cell, VAdd3(@, v))]]]
ReplicaAtoms(X, dims) ==
  {[el |-> X.atoms[a].el, pos |-> VAdd3(X.atoms[a].pos, Lat(X.cell, n))] :
      a \in 1..Len(X.atoms), n \in {<<i, j, k>> : i \in 0..(dims[1]-1), j \in 0..(dims[2]-1), k \in 0..(dims[3]-1)}}
ReplicaCell(X, dims) == <<VMul3(dims[1], X.cell[1]), VMul3(dims[2], X.cell[2]), VMul3(dims[3], X.cell[3])>>

=============================================================================
