---------------------------- MODULE MC_AtomsImpl ----------------------------
(***************************************************************************)
(* Refinement check: the array algorithms of AtomsImpl (design level)       *)
(* implement the property-level operations of AtomsAbs through Abs, for all *)
(* bounded histories of extend (default type merging, or offsets held from  *)
(* an earlier extend_types) and delete on K-level values.                   *)
(*   OffsetRule = "table_length", DeleteOrder = "descending":  Refines holds *)
(*   OffsetRule = "types_in_use":   refuted (delete the last bond, extend    *)
(*                                  with a bonded fragment: stale text)      *)
(*   DeleteOrder = "ascending":     refuted (two deleted atoms below a term) *)
(***************************************************************************)
EXTENDS AtomsImpl, Frags

CONSTANTS InitFrags, ExtFrags, MaxAtoms, MaxDepth, MaxMap, MaxDel
VARIABLES k, held, step, last
vars == <<k, held, step, last>>

\* flavour of a structure: it carries coefficient tables ("p"), it has types but no tables ("b"), it is empty ("n");
\* the tables stay when all atoms are deleted, so an emptied parameterised structure is still "p"
FlavK(K) == IF Len(K.tpc) > 0 \/ \E kk \in Kinds : Len(K[kk].co) > 0 THEN "p" ELSE IF Len(K.tel) = 0 THEN "n" ELSE "b"
Compat(K, f) == Flavour(f) = "n" \/ FlavK(K) = "n" \/ FlavK(K) = Flavour(f)

Init == \E f \in InitFrags : k = Inst(f, 0) /\ held = << >> /\ step = 0 /\ last = [op |-> "init"]

IdxMaps(O, K) ==
  {m \in UNION {[S -> 0..(Len(K.q) - 1)] : S \in {S \in SUBSET (0..(Len(O.q) - 1)) : Cardinality(S) <= MaxMap}} :
     \A a, b \in DOMAIN m : a # b => m[a] # m[b]}

Extend ==
  \E f \in ExtFrags :
    LET O == Inst(f, step + 1)
    IN /\ Compat(k, f) /\ Len(k.q) + Len(O.q) <= MaxAtoms
       /\ \E m \in IdxMaps(O, k) :
            \/ /\ k' = ExtendK(ExtendTypesK(k, O), O, m, Offsets(k))
               /\ last' = [op |-> "extend", pre |-> k, other |-> O, map |-> m]
            \/ /\ f \in DOMAIN held /\ Flavour(f) = "p"
               /\ k' = ExtendK(k, O, m, held[f])
               /\ last' = [op |-> "extend", pre |-> k, other |-> O, map |-> m]
       /\ UNCHANGED held

ExtendTypes ==
  \E f \in ExtFrags :
    /\ Compat(k, f) /\ f \notin DOMAIN held /\ Flavour(f) = "p"
    /\ k' = ExtendTypesK(k, Inst(f, step + 1))
    /\ held' = [g \in DOMAIN held \cup {f} |-> IF g = f THEN Offsets(k) ELSE held[g]]
    /\ last' = [op |-> "extend_types", pre |-> k]

Delete ==
  \E D \in SUBSET (0..(Len(k.q) - 1)) :
    /\ D # {} /\ Cardinality(D) <= MaxDel
    /\ k' = DeleteK(k, D)
    /\ last' = [op |-> "delete", pre |-> k, D |-> D]
    /\ UNCHANGED held

Next == step < MaxDepth /\ step' = step + 1 /\ (Extend \/ ExtendTypes \/ Delete)
Spec == Init /\ [][Next]_vars

\* the refinement: every design-level step is the property-level operation on the abstraction
Refines ==
  CASE last.op = "extend" ->
         LET m == last.map
             keymap == [j \in {a + 1 : a \in DOMAIN m} |-> KeyAt(last.pre, m[j - 1])]
         IN NormA(Abs(k)) = NormA(ExtendA(Abs(last.pre), AbsT(last.other, "new"), keymap))
    [] last.op = "extend_types" -> NormA(Abs(k)) = NormA(Abs(last.pre))
    [] last.op = "delete" -> NormA(Abs(k)) = NormA(DeleteA(Abs(last.pre), {KeyAt(last.pre, d) : d \in last.D}))
    [] OTHER -> TRUE
WellFormed == WFK(k)
=============================================================================
