------------------------------ MODULE DumpInst ------------------------------
(***************************************************************************)
(* Prints the fragment instances Inst(f, k) of the library (Frags) and the  *)
(* cells as JSON, so that drivers that are not TLC-generated (the random    *)
(* long-history walker of C09) feed the real code exactly the values the    *)
(* specification defines.                                                  *)
(***************************************************************************)
EXTENDS Frags, Json
CONSTANTS FragNames, MaxK
VARIABLES d
\* a large, sparsely bonded structure: the three atoms and two bonds of F3p followed by n-3 unbonded F atoms
BigSparse(n) ==
  LET A == Inst("F3p", 0)   B == Inst("F1p", 0)
  IN [A EXCEPT !.ty = A.ty \o [i \in 1..(n - 3) |-> Len(A.tel)],
               !.q = [i \in 1..n |-> i], !.grp = [i \in 1..n |-> i % 4],
               !.pos = A.pos \o [i \in 1..(n - 3) |-> <<i % 40, 10 + (i \div 40), 9>>],
               !.xa = [i \in 1..n |-> <<>>],
               !.tel = A.tel \o B.tel, !.tmass = A.tmass \o B.tmass, !.tlab = A.tlab \o B.tlab, !.tpc = A.tpc \o B.tpc]
ChainSizes == {10, 12, 17, 33, 40}
Init == d \in (FragNames \X (0..MaxK)) \cup {<<"BIGSPARSE", 160>>} \cup {<<"BIGCHAIN", n>> : n \in ChainSizes} \cup {<<c, -1>> : c \in {"none", "ortho", "tri", "trineg"}}
Next == UNCHANGED d
Spec == Init /\ [][Next]_<<d>>
EmitInv == IF d[1] = "BIGSPARSE" THEN PrintT(<<"BIG", ToJson([n |-> d[2], K |-> BigSparse(d[2])])>>)
           ELSE IF d[1] = "BIGCHAIN" THEN PrintT(<<"CHAIN", ToJson([n |-> d[2], K0 |-> BigChain(d[2], 0), K1 |-> BigChain(d[2], 1)])>>)
           ELSE IF d[2] >= 0 THEN PrintT(<<"INST", ToJson([f |-> d[1], k |-> d[2], flav |-> Flavour(d[1]), K |-> Inst(d[1], d[2])])>>)
           ELSE PrintT(<<"CELL", ToJson([name |-> d[1], cell |-> CellOf(d[1])])>>)
=============================================================================
