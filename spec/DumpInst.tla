------------------------------ MODULE DumpInst ------------------------------
(***************************************************************************)
(* Prints the fragment instances Inst(f, k) of the library (Frags) and the  *)
(* cells as JSON, so that drivers that are not TLC-generated (the random    *)
(* long-history walker of C09) feed the real code exactly the values the    *)
(* specification defines.                                                  *)
(***************************************************************************)
EXTENDS Frags, Json
CONSTANTS FragNames, MaxK
VARIABLES d
Init == d \in (FragNames \X (0..MaxK)) \cup {<<c, -1>> : c \in {"none", "ortho", "tri", "trineg"}}
Next == UNCHANGED d
Spec == Init /\ [][Next]_<<d>>
EmitInv == IF d[2] >= 0 THEN PrintT(<<"INST", ToJson([f |-> d[1], k |-> d[2], flav |-> Flavour(d[1]), K |-> Inst(d[1], d[2])])>>)
           ELSE PrintT(<<"CELL", ToJson([name |-> d[1], cell |-> CellOf(d[1])])>>)
=============================================================================
