------------------------------ MODULE MC_Terms ------------------------------
(***************************************************************************)
(* Bond graphs for C19: every triangle-free graph without isolated atoms on *)
(* up to MaxNodes atoms (built edge by edge), plus named families (rings,   *)
(* fused four-rings, star / metal node, branched chain, two components);    *)
(* type assignments from a palette that reaches every torsion case.         *)
(* Model-level checks: the numbers of angles and dihedrals of the           *)
(* definition equal the closed counting formulas sum C(deg,2) and           *)
(* sum over bonds (deg j - 1)(deg k - 1).                                   *)
(***************************************************************************)
EXTENDS Terms, Json
CONSTANTS MaxNodes, Palette, NAssign, Emit
VARIABLES g
vars == <<g>>

PaletteStd == <<"C_3", "C_R", "C_2", "N_3", "O_3", "S_3+2", "C_1", "Zr3+4", "H_">>
AllEdges(n) == {<<a, b>> \in (0..(n-1)) \X (0..(n-1)) : a < b}
SeqOfSet(S) == LET RECURSIVE F(_)
                   F(QQ) == IF QQ = {} THEN <<>> ELSE LET m == CHOOSE m \in QQ : \A y \in QQ : (m[1] < y[1]) \/ (m[1] = y[1] /\ m[2] <= y[2]) IN <<m>> \o F(QQ \ {m})
               IN F(S)
Graphs(n) == {B \in {SeqOfSet(E) : E \in (SUBSET AllEdges(n)) \ {{}}} : Nodes(B) = 0..(n-1) /\ TriangleFree(B)}
Named == {<<<<0,1>>,<<1,2>>,<<2,3>>,<<3,4>>,<<4,5>>,<<5,0>>>>,                       \* six-ring
          <<<<0,1>>,<<1,2>>,<<2,3>>,<<3,0>>,<<2,4>>,<<4,5>>,<<5,3>>>>,               \* two fused four-rings
          <<<<0,1>>,<<0,2>>,<<0,3>>,<<0,4>>,<<1,5>>,<<2,6>>>>,                       \* metal node with arms
          <<<<0,1>>,<<1,2>>,<<2,3>>,<<1,4>>,<<4,5>>,<<2,6>>>>,                       \* branched chain
          <<<<0,1>>,<<1,2>>,<<3,4>>,<<4,5>>,<<5,6>>,<<6,3>>>>}                       \* two components, one a four-ring
NN(B) == Cardinality(Nodes(B))
\* deterministic family of type assignments: assignment number k gives atom a the palette entry (a*k + a \div 2 + k) mod |Palette|
Assign(B, k) == [a \in 1..NN(B) |-> Palette[(((a - 1) * k + ((a - 1) \div 2) + k) % Len(Palette)) + 1]]

\* a chain of fourteen atoms whose five types follow each other so that twelve distinct bond types (and more than ten
\* distinct angle and dihedral types) arise: type ids with two digits
LongB == [i \in 1..13 |-> <<i - 1, i>>]
LongTy(v) == LET A == <<"C_3", "C_R", "C_2", "N_3", "O_3">>
                 sq == <<1, 2, 3, 4, 5, 1, 3, 5, 2, 4, 1, 1, 2, 2>>
             IN [a \in 1..14 |-> A[((sq[a] + v - 1) % 5) + 1]]
Init == \/ \E v \in 0..1 : g = [bonds |-> LongB, ty |-> LongTy(v), k |-> 0]
        \/ \E B \in UNION {Graphs(n) : n \in 2..MaxNodes} \cup Named : \E k \in 0..(NAssign - 1) : g = [bonds |-> B, ty |-> Assign(B, k), k |-> k]
Next == UNCHANGED g
Spec == Init /\ [][Next]_vars
SeqOfNodes(S) == LET RECURSIVE F(_)
                     F(QQ) == IF QQ = {} THEN <<>> ELSE LET m == CHOOSE m \in QQ : \A y \in QQ : m <= y IN <<m>> \o F(QQ \ {m})
                 IN F(S)
Choose2(d) == (d * (d - 1)) \div 2
RECURSIVE SumSeq(_)
SumSeq(s) == IF s = <<>> THEN 0 ELSE Head(s) + SumSeq(Tail(s))
CountInv ==
  LET B == g.bonds  ns == SeqOfNodes(Nodes(B))
  IN /\ Simple(B) /\ TriangleFree(B)
     /\ Cardinality(DefAngles(B)) = 2 * SumSeq([i \in 1..Len(ns) |-> Choose2(Deg(B, ns[i]))])
     /\ Cardinality(DefDihedrals(B)) = 2 * SumSeq([n \in 1..Len(B) |-> (Deg(B, B[n][1]) - 1) * (Deg(B, B[n][2]) - 1)])
EmitInv == Emit => PrintT(<<"GRAPH", ToJson(g)>>)
=============================================================================
