---------------------------- MODULE Trace_Replace ----------------------------
(***************************************************************************)
(* Trace validation of observed calls of replace_pattern_in_structure.      *)
(* Entry: [pre, sp, rp, found, stub, fn, fd, replace_all, ignore, post,      *)
(*         count, exc, src_same, wf, rotbound]                              *)
(* For end-to-end calls (stub = "no") `found` is what the library's own      *)
(* search returned inside the call (recorded by the harness); it is first   *)
(* judged as a Find answer, then the replacement is judged given it.        *)
(***************************************************************************)
EXTENDS Replace, Find, Json, IOUtils

Batch == JsonDeserialize(IOEnv.TRACE_FILE)
VARIABLES i, verdict
vars == <<i, verdict>>

CrystalOf(K) == [cell |-> K.cell, atoms |-> [a \in 1..Len(K.q) |-> [el |-> TyMeaning(K, K.ty[a]).el, pos |-> K.pos[a]]]]
PatternOf(K) == [a \in 1..Len(K.q) |-> [el |-> TyMeaning(K, K.ty[a]).el, pos |-> K.pos[a]]]

Judge(e) ==
  IF e.stub = "no" /\ e.exc # "find-raised" THEN
     LET v == JudgeAnswer(CrystalOf(e.pre), PatternOf(e.sp), e.found, e.rotbound)
     IN IF v # "ok" THEN "blocked:find:" \o v ELSE JudgeReplace(e)
  ELSE JudgeReplace(e)

Init == i = 0 /\ verdict = "init"
Next == /\ i = 0
        /\ i' \in 1..Len(Batch)
        /\ verdict' = Judge(Batch[i'])
Spec == Init /\ [][Next]_vars
Report == (i > 0 /\ verdict # "ok") => PrintT(<<"REJECT", i, verdict>>)
=============================================================================
