------------------------------- MODULE MC_Uff -------------------------------
(***************************************************************************)
(* Exhaustive model check of the case analysis over the generated table:    *)
(* one state per ordered pair (j, k) of centre types; invariants: reversal  *)
(* symmetry of every case function, the end types matter only through       *)
(* "is sp2", every pair falls in exactly one case (totality is by           *)
(* construction of the IF chain; Defined/None/Unsupported partition).       *)
(* Emits the case table (rule per pair and end class) for the harness.      *)
(***************************************************************************)
EXTENDS UffCases, Json
CONSTANTS Emit
VARIABLES jk
vars == <<jk>>
Init == jk \in (1..N) \X (1..N)
Next == UNCHANGED jk
Spec == Init /\ [][Next]_vars
CaseInv == ReversalSymmetric(jk[1], jk[2]) /\ EndsOnlyThroughH(jk[1], jk[2])
StyleInv == \A i \in 1..N : AngleStyle(i).style \in {"cosine/periodic", "fourier"}
Rep(c) == IF c = "2" THEN ByName("C_2") ELSE ByName("C_3")
EmitInv == Emit => PrintT(<<"CASE", ToJson([j |-> T(jk[1]).name, k |-> T(jk[2]).name, bo2 |-> BondOrder2(T(jk[1]).name, T(jk[2]).name),
                                            cases |-> [p \in 1..4 |-> LET a == <<"2", "2", "x", "x">>[p]  b == <<"2", "x", "2", "x">>[p]
                                                                     IN [ends |-> a \o b, t |-> Torsion(Rep(a), jk[1], jk[2], Rep(b))]]])>>)
=============================================================================
