#!/bin/bash
# Property-preserving refactors (benign/*/patch.diff) must leave the checks quiet.  usage: tools/run_benign.sh   (scratch worktrees; /repo untouched)
cd "$(dirname "$0")/.." || exit 2
declare -A P=( [B1-replicate-image-order]="C12 C09" [B2-replace-match-order]="C04 C06" [B3-find-result-order]="C02 C05" [B4-lmpdat-layout]="C13 C09" [B5-cli-loads-patterns-first]="C20" )
rc=0
for d in benign/*/; do n=$(basename $d); out=$(tools/run_seed_scratch.sh $d ${P[$n]} 2>&1 | grep "^=="); echo "$out"; echo "$out" | grep -qv "rc=0" && rc=1; done
exit $rc
