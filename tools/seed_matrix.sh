#!/bin/bash
# runs the quick tier of the listed (or all stochastic) checks under several VERIF_SEED values; any rc != 0 is printed
cd "$(dirname "$0")/.." || exit 2
props=${PROPS:-"C01 C02 C03 C04 C05 C06 C07 C08 C09 C10 C11 C12 C13 C18 C19 C20"}
for sd in ${SEEDS:-2 3 7}; do for p in $props; do
  out=$(VERIF_SEED=$sd timeout 1200 bin/check $p --tier quick 2>&1); rc=$?
  echo "seed=$sd $p rc=$rc $(echo "$out" | tail -1 | cut -c1-140)"
  [ $rc -ne 0 ] && echo "$out" | grep -E "^VIOLATION|MACHINERY" | head -3
done; done
