#!/bin/bash
# usage: run_seed.sh <seed dir> <prop> [<prop>...]   -- applies the change to /repo, runs the quick checks, reverts.
d=$(readlink -f "$1"); shift
cd /repo && [ -z "$(git status --porcelain --untracked-files=no)" ] || { echo "/repo not clean"; exit 2; }
git apply "$d/patch.diff" 2>/dev/null || git apply --3way "$d/patch.diff" || { echo "patch does not apply"; exit 2; }
git reset -q
for p in "$@"; do
  out=$(cd /verif && bin/check $p --tier ${TIER:-quick} 2>&1); rc=$?
  echo "== $(basename $(dirname $d))/$(basename $d) $p rc=$rc  $(echo "$out" | grep -c '^VIOLATION') violation lines"
  echo "$out" | grep '^VIOLATION' | head -3 | cut -c1-300
  echo "$out" | grep -E 'MACHINERY|Traceback' | head -3
done
cd /repo && git checkout -q -- . && git status --porcelain
