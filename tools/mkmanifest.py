#!/usr/bin/env python3
"""Regenerates /verif/MANIFEST.json from the table below (single place where checks are registered)."""
import json, os
V = os.path.dirname(os.path.dirname(os.path.abspath(__file__)))
props = [json.loads(l) for l in open(os.path.join(V, "properties.jsonl"))]

REP_NOTE = "Trusted: harness/replaceops.py, findops.py, katoms.py (rendering, integer projection, rebinding of mofun.mofun.find_pattern_in_structure to record or stub the search), TLC. Poses are cube rotations composed with seeded global rotations / joint pattern motions; calls whose pose is under-determined (collinear search pattern with off-axis replacement atoms) are recognised by TLC and skipped, as are calls where two matches insert the same atom at the same place."
FIND_NOTE = "Trusted: harness/findops.py rendering/projection (numpy; un-rendering positions to integers, lattice vectors and rotation residual in floating point), TLC. Crystals are lattice crystals (integer coordinates, cube-group poses, seeded random global rotations / pattern motions on top); tolerance classes keep atol <= 1/32 lattice unit so every candidate is either exact or clearly outside. Sub-lattice near misses (distances within tolerance, positions not) are not generated."
CHECKS = {
 "C01": dict(engine="findops", ref="DESIGN.md 4/C01, 3.4",
   technique="TLA+ spec Find (exact integer congruence) + TLC model checking of MC_Find; TLC-generated crystals searched by mofun under many representations; every answer validated by TLC (Trace_Find)",
   text="TLC builds crystals (planted copies in all 24 cube poses across faces/edges/corners, mirror decoys, near misses, distractors) and every answer of the real search is judged by TLC against the definition: distinct atoms, elements in pattern order, returned positions = stored position + lattice vector, exact squared distances and orientation signs at those images (so a mirror image is rejected), rotation witness within tolerance.",
   note=FIND_NOTE),
 "C02": dict(engine="findops", ref="DESIGN.md 4/C02, 3.4",
   technique="TLC model checking of the search design (AlgoGroups = DefGroups under the width precondition, negative control refuted) + TLC trace validation of answers: reported groups = DefGroups, each once",
   text="On the model TLC proves (bounded) that 27 images + home-cell starts + grouping find every occurrence of the definition exactly once when widths exceed diameter + 2 tol, and refutes it for a too narrow cell; on the code every answer must have exactly the groups of the definition computed by TLC on the same crystal, none twice, none missing, none spurious.",
   note=FIND_NOTE),
 "C03": dict(engine="findops", ref="DESIGN.md 4/C03",
   technique="TLC action property ShiftInvariant on MC_Find + TLC trace validation of searches on shifted / permuted / re-posed / hinted / reseeded / replicated representations of the same crystal",
   text="The same abstract crystal is searched under atom permutations, exact cube and random rigid motions of the pattern, global rotations, jitter, all kinds of hint triples (incl. index 0 and partial hints), RNG seeds, shifted-and-wrapped copies (TLC action property on the model) and real supercells from Atoms.replicate; TLC judges each answer against DefGroups of the abstract crystal, and supercell counts against a*b*c times the unit-cell count.",
   note=FIND_NOTE + " Real MOF files are not yet part of this check."),
 "C04": dict(engine="replaceops", ref="DESIGN.md 4/C04, 3.5",
   technique="TLA+ spec Replace (built from AtomsAbs operations) + TLC trace validation of observed replace calls: end-to-end on MC_Find crystals with the library's own search recorded, and exhaustive bookkeeping through MC_Replace with a stubbed search",
   text="Every observed call is judged by TLC: inputs unmodified; reported count is a nearest integer to f*M and some sub-list of the found matches of that size explains the result; exactly the matched-and-not-retained atoms are gone, exactly the non-retained replacement atoms are there once per match; every other atom keeps position, element, label, mass, charge, group.",
   note=REP_NOTE),
 "C05": dict(engine="replaceops", ref="DESIGN.md 4/C05",
   technique="TLC trace validation (Replace.tla): inserted rows must sit, modulo the lattice (exact integer wrap), where a proper cube-rotation pose of the search pattern onto the recorded match puts the replacement atoms, and inside the closed cell",
   text="On crystals with planted copies in all cube poses across faces/edges/corners of orthorhombic, tilted (both signs), strongly skewed and globally rotated cells, with patterns moved jointly by cube and random rigid motions: TLC finds a proper pose consistent with the recorded match and checks every inserted atom's lattice position (exact wrap) and that its fractional coordinates lie in [0,1].",
   note=REP_NOTE),
 "C06": dict(engine="replaceops", ref="DESIGN.md 4/C06",
   technique="TLC model checking of MC_Replace (specified outcome consistent) + TLC trace validation of stubbed and end-to-end replace calls with type ids resolved through the tables by TLC",
   text="Structures with pre-existing bonds/angles inside, across and outside the matched copies (also permuted same-atom terms, tables with unused trailing types), replacement patterns with their own terms and tables (terms duplicating existing ones forwards/backwards, shared atoms in another order), parameterised / bare / CIF-like mixed flavours: TLC decides every term and its resolved coefficient text, adopted type meanings, charges and groups of inserted atoms.",
   note=REP_NOTE + " Known finding K-pair-table-misaligned (documented CIF workflow) is reported as KNOWN-FINDING."),
 "C07": dict(engine="replaceops", ref="DESIGN.md 4/C07",
   technique="TLC trace validation of stubbed (all sharing patterns of chained / turned copies x pattern pairs x replace_all x ignore) and end-to-end replace calls against Replace.tla's overlap rule",
   text="The dedicated exception is legitimate iff the ignore flag is off and some allowed selection removes an atom twice; it must be raised when every allowed selection overlaps; matches overlapping only in atoms both patterns share (in any listing order), empty replacements and ignored overlaps must not raise.",
   note=REP_NOTE),
 "C08": dict(engine="replaceops", ref="DESIGN.md 4/C08",
   technique="TLC trace validation of self-replacement and element-substitution requests (end-to-end and stubbed) against Replace.tla: the specified result of replacing a pattern by itself is the identity on atoms and term tuples",
   text="Requests whose replacement pattern equals the search pattern (same / reordered atoms, with or without own terms, replace_all on/off) and single-element substitutions on crystals in every pose and cell; any clause failing on them counts. Chained A->B->A runs and the real MOF files are not part of this check yet.",
   note=REP_NOTE + " Known finding K-pair-table-misaligned applies."),
 "C13": dict(engine="lmpops", ref="DESIGN.md 4/C13, 3.6",
   technique="TLA+ spec LmpFile (what the file must state, what reading back must give) + TLC trace validation of files written by mofun and parsed by an independent tokenizer, and of the structures read back",
   text="Structures from Atoms histories (stale/unused table entries, emptied kinds) and from MC_Lmp (every library fragment x no cell / orthorhombic / tilted / tilt factors beyond half a box x charge sign x coordinates inside, negative, far outside x molecule groups contiguous / with gaps / not from 0 x both atom styles): TLC decides header counts, declared type counts vs contents, box, tilt factors, masses and labels, every coefficient entry token for token, atom and term lines, and the re-read structure field by field; path and file-object APIs and byte-stability of rewrites are compared by the harness and judged as clauses.",
   note="Trusted: the tokenizer in harness/lmpops.py (deliberately not mofun's reader), katoms.py, TLC. Numbers exactly representable at 6 decimals; one trailing comment per coefficient string."),
 "C14": dict(engine="massops", ref="DESIGN.md 4/C14",
   technique="TLA+ spec MassGuess over the generated mass table; MC_MassGuess enumerates every table mass and boundary (TLC checks the distinguishability corollary); answers of guess_elements_from_masses and load_lmpdat validated by TLC (Trace_MassGuess)",
   text="Exhaustive over the table the repository ships: each tabulated mass, +-(tol-2u) and +-(tol+2u) around it, both sides of every midpoint between mass neighbours (covering all out-of-order pairs), non-atomic masses and mixed lists, for several tolerances; TLC decides membership in the nearest-within-tolerance set and the all-types fallback.",
   note="Trusted: harness/massops.py (writes a minimal LAMMPS file, calls the two entry points), table generator harness/gen.py, TLC. Masses exactly at +-tol are excluded (decided by float rounding).", exhaustive=True),
 "C15": dict(engine="cifops", ref="DESIGN.md 4/C15, 3.6",
   technique="TLA+ spec CifFile (round trip and reader rules) + MC_Cif case enumeration by TLC + TLC trace validation of mofun-written text (own CIF tokenizer), re-read structures and reader-only documents, ASE as independent reader",
   text="Round trips of library fragments (terms incl. impropers, extra atom/bond columns) in an orthorhombic and two triclinic cells given by exact cell parameters, coordinates inside / outside / on the boundary, fractional and Cartesian output; reader-only documents with ten space-group spellings (P1 forms accepted, all others incl. 'P 1 21/c 1' must be rejected), coordinates outside [0,1), standard uncertainties, Cartesian files, bond loops; TLC decides every loop entry, wrapping modulo 1, cell parameters, label resolution.",
   note="Trusted: harness/cifops.py (CIF tokenizer, document renderer, fractional projection), ASE for the independent reading, TLC; installed PyCifRW 5.0.1. Coordinates are multiples of 1/80 of the cell vectors (exact at the 4 printed decimals)."),
 "C16": dict(engine="cmlops", ref="DESIGN.md 4/C16",
   technique="TLA+ spec CmlDoc; MC_Cml enumerates documents (id schemes, bond lists, coordinate notations) exhaustively within bounds; loaded objects validated by TLC (Trace_Cml)",
   text="Every document with up to 3 (quick) / 4 (thorough) atoms, five id schemes including shuffled Avogadro-style ids and arbitrary strings, every bond sequence up to 2 / 3 entries in both reference directions including none, coordinates of both signs in plain and exponent notation; loaded by path, by open file and by load_cml, all three compared.",
   note="Trusted: harness/cmlops.py (XML rendering in the flavour of the repository's fixtures, integer projection of coordinates), TLC."),
 "C09": dict(engine="atomsops", ref="DESIGN.md 4/C09, 3.2",
   technique="TLA+ spec AtomsAbs model-checked with TLC; TLC-generated histories replayed into mofun.Atoms; every observed transition validated by TLC (Trace_AtomsAbs)",
   text="TLC explores every history of Atoms operations (construct, extend in all modes and identity maps, delete every subset, pop, replicate, subset, copy) within small bounds on the property-level spec and checks its invariants and action properties; each explored history is executed on the real class and every observed transition must be a transition of the spec from the abstraction of the observed pre-state (type ids resolved through the tables by TLC, so stale or misaligned tables show as a wrong label/coefficient text). Bounded-exhaustive, not a proof.",
   note="Trusted: harness/katoms.py (array dump, integer decoding of positions/charges), the fragment library as representative of 'consistent inputs', TLC. Bounds in evidence.coverage.models."),
 "C10": dict(engine="atomsops", ref="DESIGN.md 4/C10",
   technique="TLC model checking of DeleteExact on AtomsAbs + TLC trace validation of replayed Delete/Pop transitions (every subset, several listing orders)",
   text="Every reachable small structure x every non-empty subset of atoms (bounded size) x four listing orders, and pop with default/first/negative index, executed on the real class; TLC decides that exactly the listed atoms and the terms touching them are gone and everything else keeps data, order, resolved type and extra fields.",
   note="Same trusted base as C09."),
 "C11": dict(engine="atomsops", ref="DESIGN.md 4/C11",
   technique="TLC model checking of ExtendExact on AtomsAbs + TLC trace validation of replayed extend transitions (auto / held offsets / shared ids, all identity maps within bounds, overlays)",
   text="Every reachable small structure x every library fragment x every partial identity map (bounded) plus full overlays onto earlier instances, with default type merging, offsets from extend_types, and ids declared shared; TLC decides appended rows, adopted types/extra fields, re-targeted terms with the fragment's own coefficient text, supersession of same-atom terms forwards/backwards only.",
   note="Same trusted base as C09; coefficient-table compatibility as stated in the property (both parameterised or both bare)."),
 "C12": dict(engine="atomsops", ref="DESIGN.md 4/C12",
   technique="TLC model checking of ReplicateExact on AtomsAbs + TLC trace validation of replayed replicate transitions on orthorhombic, tilted and arbitrarily rotated cells",
   text="Reachable structures with all kinds of terms x replication triples with unequal factors x cells (orthorhombic, both tilt signs, globally rotated renderings); TLC decides the bag of translated rows, copied terms with resolved types, the new cell vectors, and the harness adds an independence probe of the source object.",
   note="Same trusted base as C09; atom order after replication is deliberately not constrained."),
}

m = {"version": 1,
     "setup_cmd": "bin/setup",
     "hooks": {"guard": "MOFUN_VERIF", "enable": "no source hooks are needed: the harness imports /repo in place (editable install) and observes public state; bin/check exports MOFUN_VERIF=1",
               "baseline_off_cmd": "cd /repo && /venv/bin/python -m pytest -ra -q -p no:cacheprovider --timeout=900 --continue-on-collection-errors",
               "source_commits": [], "add_only": True},
     "engines": [{"name": "cifops", "path": "harness/cifops.py", "serves_properties": ["C15"], "kind_free_text": "case enumeration by TLC + TLC validation of written text / re-read structures / reader-only documents"},
                 {"name": "lmpops", "path": "harness/lmpops.py", "serves_properties": ["C13", "C09"], "kind_free_text": "TLC validation of written files (independent tokenizer) and re-read structures"},
                 {"name": "massops", "path": "harness/massops.py", "serves_properties": ["C14"], "kind_free_text": "exhaustive case enumeration by TLC + TLC validation of answers"},
                 {"name": "cmlops", "path": "harness/cmlops.py", "serves_properties": ["C16"], "kind_free_text": "document enumeration by TLC + TLC validation of loaded objects"},
                 {"name": "replaceops", "path": "harness/replaceops.py", "serves_properties": ["C04", "C05", "C06", "C07", "C08"],
                  "kind_free_text": "TLC trace validation of observed replace calls (end-to-end with recorded search; stubbed search enumerated by MC_Replace)"},
                 {"name": "findops", "path": "harness/findops.py", "serves_properties": ["C01", "C02", "C03"],
                  "kind_free_text": "TLC model checking of the search design + TLC validation of observed answers"},
                 {"name": "atomsops", "path": "harness/atomsops.py", "serves_properties": ["C09", "C10", "C11", "C12"],
                  "kind_free_text": "TLC model checking + spec->code replay + code->spec trace validation"}],
     "checks": [], "not_applicable": [],
     "notes": "All checks: bin/check <id> --tier quick|thorough. Exit 0 held / 1 violation / 2 machinery failure. See DESIGN.md."}
for p in props:
    pid = p["id"]
    if pid in CHECKS:
        c = CHECKS[pid]
        m["checks"].append({"property_id": pid, "quick_cmd": "bin/check %s --tier quick" % pid,
                            "thorough_cmd": "bin/check %s --tier thorough" % pid,
                            "evidence_file": "evidence/%s.json" % pid,
                            "replay_cmd_template": "bin/check %s --replay {path}" % pid,
                            "engine": c["engine"],
                            "level_claimed": {"category": c.get("category", "model_checking"), "text": c["text"], "design_ref": c["ref"]},
                            "level_note": c["note"], "technique": c["technique"]})
    else:
        m["not_applicable"].append({"property_id": pid, "reason": "check not built yet (work in progress; see DESIGN.md section 11)"})
json.dump(m, open(os.path.join(V, "MANIFEST.json"), "w"), indent=1)
print("checks:", [c["property_id"] for c in m["checks"]])
