#!/bin/bash
# Runs every seeded change against the quick check of the property it breaks (and optionally others), on a scratch copy
# of the repository given by $VP_RUN_REPO (vp run --with-repo) or a fresh worktree; never touches /repo.
# usage: tools/sweep_seeds.sh [seed-dir-glob]     output: one line per seed + summary in sweep_result.txt
cd "$(dirname "$0")/.." || exit 2
R=${VP_RUN_REPO:-}
if [ -z "$R" ]; then R=/tmp/sweeprepo.$$; git -C /repo worktree add -q --detach $R HEAD || exit 2; own=1; fi
export PYTHONPATH=$R
: > sweep_result.txt
for d in seeded/${1:-*}; do
  [ -f $d/patch.diff ] || continue
  prop=$(python3 -c "import json;print(json.load(open('$d/meta.json'))['property'])")
  (cd $R && git checkout -q -- . && git apply "$OLDPWD/$d/patch.diff") || { echo "$d $prop APPLY-FAILED" | tee -a sweep_result.txt; continue; }
  out=$(bin/check $prop --tier quick 2>&1); rc=$?
  first=$(echo "$out" | grep -m1 '^VIOLATION' | sed 's/.*# //' | cut -c1-160)
  echo "$d $prop rc=$rc $(echo "$out" | grep -c '^VIOLATION') $first" | tee -a sweep_result.txt
  (cd $R && git checkout -q -- .)
done
[ -n "$own" ] && git -C /repo worktree remove --force $R
echo "caught: $(grep -c 'rc=1' sweep_result.txt) of $(wc -l < sweep_result.txt)" | tee -a sweep_result.txt
