#!/bin/bash
# usage: tools/regress_seeds.sh C01 C02 ...   -- runs every seed of rounds 1-4 written against the listed properties on a scratch
# worktree (tools/run_seed_scratch.sh) with the property's quick check; prints one line per seed
cd "$(dirname "$0")/.." || exit 2
for p in "$@"; do for d in seeded/$p-* seeded/r2-$p-* seeded/r3-$p-* seeded/r4-$p-* seeded/own-$p-*; do
  [ -f $d/patch.diff ] || continue
  tools/run_seed_scratch.sh $d $p 2>&1 | grep "^=="
done; done
