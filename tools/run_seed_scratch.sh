#!/bin/bash
# usage: run_seed_scratch.sh <seed dir> <prop> [<prop>...]   -- like run_seed.sh, but on a scratch worktree of /repo HEAD
# (PYTHONPATH points the harness at it), so /repo is never touched and background runs against /repo are not disturbed.
d=$(readlink -f "$1"); shift
wt=/tmp/seedrun.$$
git -C /repo worktree add -q --detach $wt HEAD || exit 2
(cd $wt && (git apply "$d/patch.diff" 2>/dev/null || git apply --3way "$d/patch.diff")) || { echo "patch does not apply"; git -C /repo worktree remove --force $wt; exit 2; }
for p in "$@"; do
  out=$(cd /verif && PYTHONPATH=$wt bin/check $p --tier ${TIER:-quick} 2>&1); rc=$?
  echo "== $(basename $d) $p rc=$rc  $(echo "$out" | grep -c '^VIOLATION') violation lines"
  echo "$out" | grep '^VIOLATION' | head -3 | cut -c1-300
  echo "$out" | grep -E 'MACHINERY|Traceback' | head -3
done
git -C /repo worktree remove --force $wt
