#!/bin/bash
# usage: verify_seed.sh <dir with patch.diff demo.py>   -- confirms (in a scratch worktree of /repo HEAD) that the
# change applies, the repository tests still pass, the demo fails with the change and passes without it.
d=$(readlink -f "$1"); wt=/tmp/seedwt.$$
git -C /repo worktree add -q --detach $wt HEAD || exit 2
cd $wt
res="apply=FAIL"
if git apply "$d/patch.diff" 2>/dev/null || git apply --3way "$d/patch.diff" 2>/dev/null; then
  res="apply=ok"
  t=$(/venv/bin/python -m pytest -q -p no:cacheprovider --timeout=900 2>&1 | tail -1)
  res="$res tests=[$t]"
  PYTHONPATH=$wt timeout 300 /venv/bin/python "$d/demo.py" >/dev/null 2>&1; res="$res demo_with=$?"
  git checkout -q -- . ; git reset -q
  PYTHONPATH=$wt timeout 300 /venv/bin/python "$d/demo.py" >/dev/null 2>&1; res="$res demo_without=$?"
fi
cd /; git -C /repo worktree remove --force $wt
echo "$1: $res"
