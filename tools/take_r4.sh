#!/bin/bash
# usage: tools/take_r2.sh C15   -- copies the round-4 deliverables of that property into seeded/, verifies and runs the check
cd /verif
for id in "$@"; do for k in 1 2; do
  src=/tmp/mutout4/$id/$k; [ -f $src/patch.diff ] || { echo "$id-$k missing"; continue; }
  d=seeded/r4-$id-$k; mkdir -p $d; cp $src/patch.diff $src/demo.py $src/meta.json $d/
  tools/verify_seed.sh $d
  tools/run_seed_scratch.sh $d $id 2>&1 | head -3
done; done
