#!/usr/bin/env python3
"""usage: tools/mk_seed_table.py <prefix> <sweep_result.txt> [notes.json]   -- markdown table of seeded changes and what caught them"""
import glob, json, os, sys
prefix, res = sys.argv[1], sys.argv[2]
notes = json.load(open(sys.argv[3])) if len(sys.argv) > 3 else {}
rows = {}
for line in open(res):
    p = line.split()
    if len(p) >= 3 and p[0].startswith("seeded/"):
        name = p[0].split("/")[1]
        rest = line.split(None, 4)
        rows[name] = (p[2], rest[4].strip() if len(rest) > 4 else "")
print("| seed | property | change (summary by its author) | detected |")
print("|---|---|---|---|")
for d in sorted(x for x in glob.glob("seeded/%s*" % prefix) if os.path.isdir(x)):
    name = os.path.basename(d)
    m = json.load(open(os.path.join(d, "meta.json")))
    rc, first = rows.get(name, ("?", ""))
    det = "yes" if rc == "rc=1" else ("NO" if rc == "rc=0" else rc)
    clause = ""
    try:
        j = json.loads(first)
        clause = "%s / %s" % (j.get("op", ""), j.get("clause", ""))
    except Exception:
        pass
    note = notes.get(name, "")
    print("| %s | %s | %s | %s%s%s |" % (name, m["property"], m.get("summary", m.get("what", ""))[:150].replace("|", "/"), det,
                                          (" - " + clause) if clause else "", ("; " + note) if note else ""))
