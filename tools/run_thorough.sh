#!/bin/bash
# usage: tools/run_thorough.sh C14 C16 ...   -- runs the thorough tier of each, prints wall time and last line
cd "$(dirname "$0")/.." || exit 2
for p in "$@"; do
  s=$(date +%s); out=$(timeout ${THOROUGH_TIMEOUT:-3600} bin/check $p --tier thorough 2>&1); rc=$?
  echo "$p rc=$rc wall=$(( $(date +%s) - s ))s :: $(echo "$out" | tail -1 | cut -c1-220)"
  echo "$out" | grep -E "^VIOLATION|MACHINERY|KNOWN" | head -5
done
