#!/bin/bash
# runs every quick check once on the unchanged tree (evidence files are rewritten by the checks themselves); any rc != 0 is printed
cd "$(dirname "$0")/.." || exit 2
bin/setup || exit 2
rc=0
for p in C01 C02 C03 C04 C05 C06 C07 C08 C09 C10 C11 C12 C13 C14 C15 C16 C17 C18 C19 C20; do
  out=$(bin/check $p --tier ${TIER:-quick} 2>&1); r=$?
  echo "$p rc=$r $(echo "$out" | tail -1 | cut -c1-150)"
  [ $r -ne 0 ] && { rc=1; echo "$out" | grep -E "^VIOLATION|MACHINERY" | head -3; }
done
exit $rc
