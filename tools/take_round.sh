#!/bin/bash
# usage: tools/take_round.sh <round number> C15 [C16 ...]  -- copies the round's deliverables of those properties
# (from /tmp/mutout<round>/<id>/<k>/) into seeded/r<round>-<id>-<k>, verifies them and runs the property's quick check
cd /verif; r=$1; shift
for id in "$@"; do for k in 1 2; do
  src=/tmp/mutout$r/$id/$k; [ -f $src/patch.diff ] || { echo "$id-$k missing"; continue; }
  d=seeded/r$r-$id-$k; mkdir -p $d; cp $src/patch.diff $src/demo.py $src/meta.json $d/
  tools/verify_seed.sh $d
  tools/run_seed_scratch.sh $d $id 2>&1 | head -4
done; done
