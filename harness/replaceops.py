"""C04-C08: replace_pattern_in_structure.

End-to-end: crystals from MC_Find, replacement patterns emitted with them (RPVariants), rendered under several
representations; the library's own search is recorded inside the call (by rebinding the module attribute from
the harness, no source change); TLC (Trace_Replace) judges the recorded answer and then the replacement.

Stubbed: MC_Replace (TLC) enumerates structures with terms, pattern pairs and arbitrary translated match lists;
the search inside the call is replaced by a stub returning exactly the spec's list, which isolates and exhausts
the bookkeeping (C04, C06, C07)."""
import contextlib
import io
import json
import multiprocessing
import pickle
import random

import numpy as np

from . import katoms, findops
from .katoms import Rendering, render, project, empty_K
from .tlcrun import run_tlc, tla_string_to_json, MachineryError
from .common import time_limit, Outcome, shard_validate, seed

TRACE_CFG = "SPECIFICATION Spec\nINVARIANT Report\nCHECK_DEADLOCK FALSE\n"
MASS = {"H": 1007940, "C": 12010700, "N": 14006700, "O": 15999400, "F": 18998403, "Zn": 65380000, "Br": 79904000,
        "Cl": 35453000, "Si": 28085500, "Ge": 72640000, "Zr": 91224000, "Cu": 63546000, "S": 32065000}
FRACS = [(1, 1), (1, 2), (1, 3), (2, 3), (1, 4), (0, 1), (3, 4), (9, 10), (1, 5)]

CLAUSE_PROP = {
    "inputs-unmodified": "C04", "replaced-count-is-nearest-integer": "C04", "only-selected-matches-are-replaced": "C04",
    "atom-count": "C04", "which-atoms-removed-and-inserted": "C04", "bystander-position": "C04", "atoms-data": "C04",
    "inserted-atoms-placement": "C05", "inserted-inside-cell": "C05",
    "atoms-type-meaning": "C06", "atoms-element": "C04", "term-listed-twice": "C06", "bonds": "C06", "angles": "C06", "dihedrals": "C06",
    "impropers": "C06",
    "overlap-error-although-ignored": "C07", "overlap-error-without-overlap": "C07", "overlap-not-refused": "C07",
    "no-exception": "C04", "projection": "C05", "one-entry-per-atom-and-term": "C09", "cell": "C04", "consistent": "C09",
}


def atoms_to_K(atoms, cell, id0, grp, param_tag=None):
    """element/position list -> K-level value (types numbered by first appearance, labels = element or tagged)"""
    els = []
    for a in atoms:
        if a["el"] not in els:
            els.append(a["el"])
    K = empty_K()
    K["ty"] = [els.index(a["el"]) for a in atoms]
    K["q"] = [id0 + i for i in range(len(atoms))]
    K["grp"] = [grp] * len(atoms)
    K["pos"] = [list(a["pos"]) for a in atoms]
    K["xa"] = [[] for _ in atoms]
    K["tel"] = list(els)
    K["tlab"] = [(e if param_tag is None else "%s.%s" % (param_tag, e)) for e in els]
    K["tmass"] = [MASS[e] for e in els]
    K["tpc"] = [] if param_tag is None else ["lj/cut 0.%d 3.%d # %s.p%d" % (i + 1, i + 1, param_tag, i) for i in range(len(els))]
    K["cell"] = [list(r) for r in cell] if cell else []
    return K


class Recorder:
    """records (and optionally replaces) the search made inside replace_pattern_in_structure"""

    def __init__(self, stub=None):
        self.calls = []
        self.stub = stub

    def __enter__(self):
        import mofun.mofun as mm
        self.mm = mm
        self.orig = mm.find_pattern_in_structure

        def wrapper(*a, **k):
            r = self.stub(*a, **k) if self.stub else self.orig(*a, **k)
            self.calls.append((a, k, r))
            return r
        mm.find_pattern_in_structure = wrapper
        return self

    def __exit__(self, *exc):
        self.mm.find_pattern_in_structure = self.orig
        return False


def snapshot(a):
    d = {}
    for k, v in a.__dict__.items():
        d[k] = np.array(v, dtype=object).tolist() if not isinstance(v, np.ndarray) else v.tolist()
    return pickle.dumps(d)


def make_request(crystal, ri, rnd):
    """one replacement request for a crystal: which replacement pattern, options, representation"""
    rps = crystal["rps"]
    rp = rps[ri % len(rps)] if ri < len(rps) else rnd.choice(rps)
    fr = FRACS[0] if rnd.random() < 0.5 else rnd.choice(FRACS)
    v = findops.make_variant(crystal, rnd.choice([0, 1, 3]), rnd, 8)
    v["dims"] = None
    if v["hints"] is not None and (v["hints"][0] is None or v["hints"][1] is None):
        v["hints"] = None
    return dict(rp=rp["name"], fn=fr[0], fd=fr[1], replace_all=(rnd.random() < 0.25), ignore=(rnd.random() < 0.15),
                param=(rnd.random() < 0.0), variant=v)


def run_replace(crystal, rq, prev=None, want_obj=False):
    """prev = (structure object, its K value): continue a chain on the result of an earlier replacement; then
    rq["sp_atoms"] / rq["rp_atoms"] give the two patterns and rq["id0"] the ids of the new replacement atoms"""
    from mofun import Atoms, replace_pattern_in_structure
    v = rq["variant"]
    s, atol = findops.TOL_CLASSES[v["cls"]]
    Q = np.eye(3) if v["Q"] is None else katoms.random_rotation(np.random.default_rng(v["Q"]))
    R = Rendering("r", s, Q)
    if prev is None:
        rpdef = [r for r in crystal["rps"] if r["name"] == rq["rp"]][0]
        Ks = atoms_to_K(crystal["atoms"], crystal["cell"], 1, 0)
        n = len(crystal["atoms"])
        perm = list(range(n))
        if v["perm"] is not None:
            random.Random(v["perm"]).shuffle(perm)
            Ks = dict(Ks, ty=[Ks["ty"][i] for i in perm], q=[Ks["q"][i] for i in perm], pos=[Ks["pos"][i] for i in perm])
        Ksp = atoms_to_K(crystal["pat"], None, 101, 3)
        Krp = atoms_to_K(rpdef["atoms"], None, 201, 5, "RP" if rq["param"] else None)
    else:
        Ks = {k: x for k, x in prev[1].items()}
        n = len(Ks["q"])
        Ksp = atoms_to_K(rq["sp_atoms"], None, 101, 3)
        Krp = atoms_to_K(rq["rp_atoms"], None, rq["id0"], 5, None)
    ev = {"kind": "replace", "pre": Ks, "sp": Ksp, "rp": Krp, "found": [], "stub": "no", "fn": rq["fn"], "fd": rq["fd"],
          "replace_all": "yes" if rq["replace_all"] else "no", "ignore": "yes" if rq["ignore"] else "no",
          "post": empty_K(), "count": -1, "exc": "none", "src_same": "yes", "wf": "ok", "rotbound": 1100}
    with contextlib.redirect_stderr(io.StringIO()), contextlib.redirect_stdout(io.StringIO()):
        st = render(Ks, R) if prev is None else prev[0]
        jit = 0.0
        if prev is not None and v["jitter"] is not None:
            jit = atol / 50.0
        if prev is None and v["jitter"] is not None:
            jr = np.random.default_rng(v["jitter"])
            d = jr.uniform(-1, 1, size=(n, 3)) * atol / 50.0
            inv = np.linalg.inv(np.array(st.cell))
            f = st.positions @ inv
            df = d @ inv
            bad = (f + df < 0) | (f + df >= 1)
            st.positions = (f + np.where(bad, -df, df)) @ np.array(st.cell)
            jit = atol / 50.0
        # the two patterns are moved together by one rigid motion
        Rp, tp = np.eye(3), np.zeros(3)
        if v.get("pcube") is not None:
            Rp = findops.ROT24[v["pcube"]]
        if v["pmove"] is not None:
            pr = np.random.default_rng(v["pmove"])
            Rp = katoms.random_rotation(pr)
            tp = pr.uniform(-20, 20, size=3)
        sp = render(Ksp, R)
        rp = render(Krp, R)
        sp.positions = sp.positions @ Rp.T + tp
        if len(rp) > 0:
            rp.positions = rp.positions @ Rp.T + tp
        # the two patterns built from ONE coordinate array (the search pattern from a slice of it) and then moved jointly
        # with translate(): a constructor that keeps the caller's array would move the shared atoms twice
        if prev is None and v["rseed"] % 4 == 1 and len(rp) >= len(sp) > 0 and Krp["pos"][:len(Ksp["pos"])] == Ksp["pos"]:
            shared = np.array(rp.positions, dtype=float)
            shared[:len(sp)] = sp.positions
            sp = render(Ksp, R, positions=shared[:len(sp)])
            rp = render(Krp, R, positions=shared)
            t2 = np.random.default_rng(v["rseed"]).uniform(-9, 9, size=3)
            sp.translate(t2)
            rp.translate(t2)
    before = (snapshot(st), snapshot(sp), snapshot(rp))
    kw = {}
    if v["hints"] is not None:
        kw = {k: (x if v["rseed"] % 2 == 0 else np.int64(x)) for k, x in zip(("axisp1_idx", "axisp2_idx", "opoint_idx"), v["hints"]) if x is not None}
    random.seed(v["rseed"])
    np.random.seed(v["rseed"] % (2 ** 32))
    res = None
    with Recorder() as rec:
        try:
            with contextlib.redirect_stderr(io.StringIO()), contextlib.redirect_stdout(io.StringIO()):
              with time_limit(180):
                res = replace_pattern_in_structure(st, sp, rp, replace_fraction=rq["fn"] / rq["fd"], atol=atol,
                                                   replace_all=rq["replace_all"], return_num_matches=True,
                                                   ignore_atoms_should_not_be_deleted_twice=rq["ignore"], **kw)
        except Exception as e:
            ev["exc"] = type(e).__name__
            ev["exc_msg"] = str(e)[:200]
    if rec.calls:
        (a, k, r) = rec.calls[0]
        info = {"atol": atol}
        try:
            ev["found"] = findops.project_answer(st, a[1], info, r, {i: i + 1 for i in range(len(st))})
        except Exception as e:
            ev["exc"] = "find-answer-unreadable"
            ev["exc_msg"] = str(e)[:200]
    elif ev["exc"] != "none":
        ev["exc"] = "find-raised" if ev["exc"] != "AtomsShouldNotBeDeletedTwice" else ev["exc"]
    if (snapshot(st), snapshot(sp), snapshot(rp)) != before:
        ev["src_same"] = "no"
    if res is not None:
        new, cnt = res
        ev["count"] = int(cnt)
        # inserted atoms sit on the lattice up to a bound proportional to the tolerance (jitter, lever arms)
        ev["post"] = project(new, R, residual_tol=1e-6 if jit == 0.0 else 2.0 * atol / s)
        ev["wf"] = ev["post"]["wf"]
    ev["postu"], ev["wfu"], ev["und"], ev["nblocks"] = ev["post"], ev["wf"], [], -1
    if res is not None and rec.calls and len(Krp["q"]) > 0 and ev["found"] and ev["exc"] == "none":
        try:
            und_view(ev, res[0], R, rec.calls[0][2], Ksp, Krp, 1e-6 if jit == 0.0 else 2.0 * atol / s)
        except Exception as e:      # rotation-invariant view unavailable: such events stay unjudged, never alarm
            ev["und"], ev["nblocks"], ev["und_msg"] = [], -1, "%s: %s" % (type(e).__name__, str(e)[:120])
    ev["pre"] = dict(Ks, wf="ok")
    if want_obj:
        return ev, (res[0] if res is not None else None)
    return ev


def und_view(ev, new, R, ans, Ksp, Krp, residual_tol):
    """Rotation-invariant view of the inserted atoms (Replace.tla, JudgeReplaceUnd): blocks of inserted rows, and for every
    (match, block) the squared distances / signed volumes of matched positions ++ block atoms at their nearest images,
    in lattice units, rounded.  Mechanical: no comparison with the patterns happens here."""
    import copy
    import itertools
    idx, mpos, quats = ans
    Kp = project(new, R, residual_tol=1e9)
    code = {q: r + 1 for r, q in enumerate(Krp["q"])}
    rows = [(j, code[q]) for j, q in enumerate(Kp["q"]) if q in code]
    blocks = []
    for j, r in rows:
        if not blocks or r <= blocks[-1][-1][1]:
            blocks.append([])
        blocks[-1].append((j, r))
    if len(blocks) * len(idx) > 144 or any([r for _, r in b] != [r for _, r in blocks[0]] for b in blocks):
        return
    cell = np.array(new.cell, dtype=float)
    inv = np.linalg.inv(cell)
    pos = np.array(new.positions, dtype=float)
    s = R.scale
    # every inserted atom is imaged next to the search-pattern atom it is closest to in the pattern (first such atom)
    spp, rpp = np.array(Ksp["pos"], dtype=int).reshape(-1, 3), np.array(Krp["pos"], dtype=int).reshape(-1, 3)
    anchors = {r + 1: int(np.argmin(((spp - rpp[r]) ** 2).sum(axis=1))) for r in range(len(rpp))}
    und = []
    for b, blk in enumerate(blocks):
        fr = pos[[j for j, _ in blk]] @ inv
        inside = "yes" if (fr.min() > -1e-9 and fr.max() < 1 + 1e-9) else "no"
        for a in range(len(idx)):
            mp = np.array(mpos[a], dtype=float).reshape(-1, 3)
            x = pos[[j for j, _ in blk]]
            anchor = mp[[anchors[r] for _, r in blk]]
            x = x - np.rint((x - anchor) @ inv) @ cell
            pts = np.vstack([mp, x]) / s
            d = pts[:, None, :] - pts[None, :, :]
            d2 = (d * d).sum(axis=2)
            dev = float(np.abs(d2 - np.rint(d2)).max())
            det = []
            for q in itertools.combinations(range(len(pts)), 4):
                v = float(np.linalg.det(np.array([pts[q[1]] - pts[q[0]], pts[q[2]] - pts[q[0]], pts[q[3]] - pts[q[0]]])))
                det.append([q[0] + 1, q[1] + 1, q[2] + 1, q[3] + 1, int(round(v))])
            if float(np.rint(d2).max()) > 10 ** 6:
                continue        # far apart: not this match's block (keeps the numbers small)
            und.append({"a": a + 1, "b": b + 1, "rp": [r for _, r in blk], "d2": np.rint(d2).astype(int).tolist(), "det": det,
                        "res": "ok" if dev < 0.3 else "residual %.3g" % dev, "inside": inside})
    ghost = copy.deepcopy(new)
    gp = np.array(ghost.positions, dtype=float)
    for blk in blocks:
        for j, r in blk:
            gp[j] = 0.0
    ghost.positions = gp
    Ku = project(ghost, R, residual_tol=residual_tol)
    for b, blk in enumerate(blocks):
        for j, r in blk:
            Ku["pos"][j] = [1000 + b + 1, 0, r]
    ev["postu"], ev["wfu"], ev["und"], ev["nblocks"] = Ku, Ku["wf"], und, len(blocks)


def run_chain(crystal, rq, replicate=None, onward=False):
    """C08: substitute one element of the pattern in every occurrence, search the original pattern again, substitute
    back.  Every step is an ordinary observed call judged by Trace_Replace; the second starts from the first's result."""
    if onward:
        # A -> B -> C with symbols of growing length: the substituted atom becomes "S" first and "Cl" afterwards, so the
        # second call brings a longer symbol than any the type tables hold after the first
        sub = [r for r in crystal["rps"] if r["name"] == "subst"][0]["atoms"]
        subS = [dict(a, el="S") if a["el"] == "Br" else a for a in sub]
        subCl = [dict(a, el="Cl") if a["el"] == "Br" else a for a in sub]
        crystal = dict(crystal, rps=crystal["rps"] + [{"name": "substS", "atoms": subS}])
        rq = dict(rq, rp="substS")
    ev1, obj = run_replace(crystal, rq, want_obj=True)
    out = [(rq, ev1)]
    if obj is None or ev1["exc"] != "none" or ev1["wf"] != "ok":
        return out
    pre2 = ev1["post"]
    if replicate is not None:
        # replace -> replicate -> replace: anything remembered from the first call (cell, inverse, offsets) is stale now
        v = rq["variant"]
        s_, _ = findops.TOL_CLASSES[v["cls"]]
        Q = np.eye(3) if v["Q"] is None else katoms.random_rotation(np.random.default_rng(v["Q"]))
        try:
            with contextlib.redirect_stderr(io.StringIO()):
                obj = obj.replicate(tuple(replicate))
            pre2 = project(obj, Rendering("r", s_, Q), residual_tol=1e-6 if v["jitter"] is None else 2.0 / 32)
        except Exception:
            return out
        if pre2["wf"] != "ok":
            return out
    subst = [r for r in crystal["rps"] if r["name"] == "subst"][0]["atoms"]
    rq2 = dict(rq, rp="back", chain=True, sp_atoms=subst, rp_atoms=crystal["pat"], id0=301, fn=1, fd=1, replace_all=False, ignore=False,
               first=dict(rq, rp="subst"), replicate=replicate)
    if onward:
        rq2.update(rp="onward", sp_atoms=subS, rp_atoms=subCl)
    rq2["variant"] = dict(rq["variant"], hints=None)
    ev2 = run_replace(crystal, rq2, prev=(obj, pre2))
    out.append((rq2, ev2))
    return out


def run_stubbed(req, vi, sd):
    """one TLC-emitted request executed with the search replaced by a stub that returns exactly req['found']"""
    from mofun import replace_pattern_in_structure
    from scipy.spatial.transform import Rotation
    rnd = np.random.default_rng(sd * 131 + vi)
    if vi == 0:
        R, s = Rendering("identity", 1.0), 1.0
    elif vi == 1:
        R, s = Rendering("scaled", 1.375), 1.375
    else:
        s = 1.25
        R = Rendering("rotated", s, katoms.random_rotation(rnd))
    fine = int(req.get("fine", 1))
    if fine != 1:                              # a finer lattice at the same physical size
        s = s / fine
        R = Rendering(R.name, s, R.Q)
    ev = dict(req)
    ev.update({"post": empty_K(), "count": -1, "exc": "none", "src_same": "yes", "wf": "ok"})
    try:
        with contextlib.redirect_stderr(io.StringIO()), contextlib.redirect_stdout(io.StringIO()):
            st = render(req["pre"], R)
            Rs = Rendering("pat", s)           # patterns keep their own frame; the structure may be rotated against it
            sp = render(req["sp"], Rs)
            rp = render(req["rp"], Rs)
            # two patterns cut from one parent structure (or built from the same lists) share type-level lists as objects,
            # not only by value
            if (sd + vi) % 2 == 0 and len(rp) > 0:
                for t in ("atom_type_elements", "atom_type_masses", "atom_type_labels", "pair_coeffs"):
                    if list(getattr(sp, t)) == list(getattr(rp, t)):
                        setattr(rp, t, getattr(sp, t))
    except Exception as e:                     # consistent inputs must be constructible
        ev["exc"] = "constructing-inputs:" + type(e).__name__
        ev["exc_msg"] = str(e)[:200]
        return ev
    idx = [tuple(int(i) - 1 for i in f["t"]) for f in req["found"]]

    def stub(structure, pattern, *a, **k):
        pos = np.array([[structure.positions[i] for i in t] for t in idx], dtype=float).reshape(len(idx), len(pattern), 3)
        # the rotation a correct search would report: best proper rotation carrying the pattern onto the match
        quats = []
        pp = np.array(pattern.positions, dtype=float)
        for m in range(len(idx)):
            if len(pp) >= 2:
                rot, _ = Rotation.align_vectors(pos[m] - pos[m][0], pp - pp[0])
            else:
                rot = Rotation.from_matrix(R.Q)
            quats.append(rot)
        quats = np.array(quats)
        if k.get("return_positions_and_quats"):
            return list(idx), pos, quats
        return list(idx)
    before = (snapshot(st), snapshot(sp), snapshot(rp))
    random.seed(sd + vi)
    res = None
    with Recorder(stub=stub):
        try:
            with contextlib.redirect_stderr(io.StringIO()), contextlib.redirect_stdout(io.StringIO()):
              with time_limit(180):
                res = replace_pattern_in_structure(st, sp, rp, replace_fraction=req["fn"] / req["fd"], atol=0.05,
                                                   replace_all=req["replace_all"] == "yes", return_num_matches=True,
                                                   ignore_atoms_should_not_be_deleted_twice=req["ignore"] == "yes")
        except Exception as e:
            ev["exc"] = type(e).__name__
            ev["exc_msg"] = str(e)[:200]
    if (snapshot(st), snapshot(sp), snapshot(rp)) != before:
        ev["src_same"] = "no"
    if res is not None:
        new, cnt = res
        ev["count"] = int(cnt)
        ev["post"] = project(new, R)
        ev["wf"] = ev["post"]["wf"]
    ev["postu"], ev["wfu"], ev["und"], ev["nblocks"] = ev["post"], ev["wf"], [], -1
    return ev


def _exec_stub_chunk(task):
    reqs, sd, nvar = task
    return [(ri, vi, run_stubbed(req, vi, sd)) for ri, req in reqs for vi in range(nvar)]


def stub_cfg(c, emit):
    lines = ["SPECIFICATION Spec", "CONSTANTS", "  SPNames = %s" % c["SPNames"], "  Flavours = %s" % c["Flavours"],
             "  MaxCopies = %d" % c["MaxCopies"], "  Fracs <- %s" % c["Fracs"], "  Emit = %s" % ("TRUE" if emit else "FALSE")]
    lines.append("INVARIANT EmitInv" if emit else "INVARIANT ModelInv")
    lines.append("CHECK_DEADLOCK FALSE")
    return "\n".join(lines) + "\n"


STUB_TIERS = {
    "quick": dict(SPNames='{"CH", "NCN", "CCH", "CHN"}', Flavours='{"p", "b", "m", "d", "f"}', MaxCopies=3, Fracs="FracsQ", variants=2, sample=6000),
    "thorough": dict(SPNames='{"CH", "NCN", "CCH", "CHN"}', Flavours='{"p", "b", "m", "d", "f"}', MaxCopies=3, Fracs="FracsT", variants=3),
}


def stubbed_events(tier, sd, out):
    c = STUB_TIERS[tier]
    res = run_tlc("MC_Replace", stub_cfg(c, False), workers=16, timeout=3000, tag="mcrep")
    if res.error:
        raise MachineryError("MC_Replace failed:\n" + res.error)
    out.model("MC_Replace(stubbed search, %s)" % tier, res)
    if res.violated:
        out.violation({"op": "spec", "clause": "model property violated: %s" % res.violated}, {"tlc_output_tail": res.stdout[-3000:]})
    g = run_tlc("MC_Replace", stub_cfg(c, True), workers=8, timeout=3000, tag="genrep")
    if g.error:
        raise MachineryError("MC_Replace emission failed:\n" + g.error)
    reqs = [tla_string_to_json(rest) for t, rest in g.printed if t == "REQUEST"]
    if c.get("sample"):
        random.Random(sd).shuffle(reqs)
        reqs = reqs[: c["sample"]]
    idx = list(enumerate(reqs))
    chunks = [(idx[k::28], sd, c["variants"]) for k in range(28)]
    with multiprocessing.get_context("fork").Pool(14) as pool:
        results = [r for part in pool.map(_exec_stub_chunk, chunks, chunksize=1) for r in part]
    return reqs, results


def _exec_chunk(task):
    crystals, sd, nreq = task
    out = []
    for ci, crystal in crystals:
        rnd = random.Random(sd * 7919 + ci)
        for ri in range(nreq):
            rq = make_request(crystal, ri if nreq >= 6 else rnd.randrange(6), rnd)
            out.append((ci, rq, run_replace(crystal, rq)))
        if ci % 4 == 0:
            # substitute-and-back chain (C08) on every fourth crystal
            rq = make_request(crystal, 1, rnd)
            rq.update(rp="subst", fn=1, fd=1, replace_all=False, ignore=False, chain=True)
            for rq_i, ev in run_chain(crystal, rq, replicate=([2, 1, 1] if ci % 8 == 0 else ([2, 2, 3] if ci % 64 == 4 else None))):
                out.append((ci, rq_i, ev))
        if ci % 4 == 2 and all(len(a["el"]) == 1 for a in crystal["atoms"]):
            rq = make_request(crystal, 1, rnd)
            rq.update(rp="subst", fn=1, fd=1, replace_all=False, ignore=False, chain=True)
            for rq_i, ev in run_chain(crystal, rq, onward=True):
                out.append((ci, rq_i, ev))
    return out


def attribute(prop, verdict, rq=None):
    if prop == "C08" and verdict.startswith("blocked:find:") and not verdict.startswith("blocked:find:blocked"):
        # the search made inside the call gave a wrong answer (judged as a Find answer first): on self-replacement and
        # substitute-and-back requests the end-to-end statement of C08 fails whichever component is at fault
        return bool(rq) and (rq.get("rp") in ("same", "subst") or bool(rq.get("chain")))
    if prop == "C05" and verdict.startswith("blocked:find:") and verdict[len("blocked:find:"):] in findops.C01_CLAUSES:
        # the search inside the call reported something that is not an occurrence (or reported it wrongly): what is
        # inserted for it is not a rigid image of the patterns at an occurrence
        return True
    if verdict.startswith("blocked"):
        return False
    p = CLAUSE_PROP.get(verdict)
    if prop == "C08":
        # self-replacement and substitute-and-back: whatever clause fails on these requests breaks C08
        return bool(rq) and (rq.get("rp") in ("same", "subst") or rq.get("chain"))
    return p == prop


TIERS = {
    "quick": dict(
        gens=[dict(CellNames='{"ort", "trineg", "skew"}', PatNames='{"P2s", "P3iso", "P3het", "P4ax"}', MaxCopies=1, MaxDecoys=0,
                   MaxAtoms=9, Anchors="AnchQ", Decoys="DecoyQ", DecoyRots="RotsQ", Shifts="ShiftQ1"),
              dict(CellNames='{"ort", "trineg"}', PatNames='{"P2h", "P3lin", "P3sca"}', MaxCopies=2, MaxDecoys=0,
                   MaxAtoms=8, Anchors="AnchB", Decoys="DecoyQ", DecoyRots="RotsQ", Shifts="ShiftQ1", PlantRots="RotsQ"),
              # single-atom site patterns (the typical element substitution), moved away from the origin by the representations
              dict(CellNames='{"ort", "trineg"}', PatNames='{"P1"}', MaxCopies=2, MaxDecoys=0,
                   MaxAtoms=6, Anchors="AnchB", Decoys="DecoyQ", DecoyRots="RotsQ", Shifts="ShiftQ1", PlantRots="RotsQ"),
              # mirror-image decoys of the shallow chiral pattern in big cells (coordinates far from the origin)
              dict(CellNames='{"big", "bigtri"}', PatNames='{"P4flat"}', MaxCopies=1, MaxDecoys=1, MaxAtoms=8,
                   Anchors="AnchB", Decoys="DecoyQ", DecoyRots="RotsQ", PlantRots="RotsQ", Shifts="ShiftQ1", Kinds='{"mirror"}')],
        requests=2),
    "thorough": dict(
        gens=[dict(CellNames='{"cub", "ort", "tri", "trineg", "skew"}', PatNames=findops.ALLP, MaxCopies=1, MaxDecoys=0,
                   MaxAtoms=9, Anchors="AnchQ", Decoys="DecoyQ", DecoyRots="RotsQ", Shifts="ShiftQ"),
              dict(CellNames='{"ort", "trineg", "skew"}', PatNames='{"P1", "P2h", "P2s", "P3lin", "P3iso", "P3sca", "P4ax"}', MaxCopies=2,
                   MaxDecoys=0, MaxAtoms=10, Anchors="AnchB", Decoys="DecoyQ", DecoyRots="RotsQ", PlantRots="RotsQ", Shifts="ShiftQ1")],
        requests=6),
}


def generate(cfg, out):
    crystals = []
    for n, g in enumerate(cfg["gens"]):
        res = run_tlc("MC_Find", findops.mc_cfg(g, True, False), workers=8, timeout=3000, tag="genrep")
        if res.error:
            raise MachineryError("MC_Find emission failed:\n" + res.error)
        out.model("MC_Find(emission %d: %s x %s)" % (n, g["CellNames"], g["PatNames"]), res)
        crystals += [tla_string_to_json(rest) for t, rest in res.printed if t == "CRYSTAL"]
    return [c for c in crystals if c["inside"] and c["widths"]]


def run(prop, tier, replay=None):
    import time
    out = Outcome(prop, tier)
    sd = seed()
    cfg = TIERS[tier]
    out.rule = ("end-to-end: every crystal of MC_Find x %d requests (replacement pattern: same / substituted / grown / "
                "empty / first atom / all new; fraction; replace_all; ignore flag; representation); a case = one distinct "
                "observed call (inputs, recorded search answer, result); non-trivial = the search found a match"
                % cfg["requests"])
    t0 = time.time()
    if replay:
        rp = json.load(open(replay))["case"]
        rq0 = rp["request"]
        if "stub_variant" in rq0:
            # a request of the stubbed model: the observed event still holds everything TLC emitted
            o = rp["observed"]
            req = {k: o[k] for k in ("kind", "pre", "sp", "rp", "found", "stub", "fn", "fd", "replace_all", "ignore", "rotbound") if k in o}
            req["fine"] = o.get("fine", 1)
            results = [(-1, rq0, run_stubbed(req, rq0["stub_variant"], sd))]
        elif rq0.get("chain") and rq0.get("first") is not None:
            # the later step of a chain: run the whole chain again from its first request
            results = [(0, rq_i, ev) for rq_i, ev in run_chain(rp["crystal"], rq0["first"], replicate=rq0.get("replicate"),
                                                                 onward=(rq0.get("rp") == "onward"))]
        else:
            results = [(0, rq0, run_replace(rp["crystal"], rq0))]
        crystals = [rp["crystal"]]
    else:
        crystals = generate(cfg, out)
        idx = list(enumerate(crystals))
        chunks = [(idx[k::28], sd, cfg["requests"]) for k in range(28)]
        with multiprocessing.get_context("fork").Pool(14) as pool:
            results = [r for part in pool.map(_exec_chunk, chunks, chunksize=1) for r in part]
    out.evaluations = len(results)
    out.notes["phase_end_s"] = {"execute": round(time.time() - t0, 1)}
    events, where = {}, {}
    for ci, rq, ev in results:
        e = {k: x for k, x in ev.items() if k != "exc_msg"}
        key = json.dumps(e, sort_keys=True)
        if key not in events:
            events[key] = e
            where[key] = (ci, rq, ev)
    if not replay and prop in ("C04", "C06", "C07", "C08"):
        reqs, sres = stubbed_events(tier, sd, out)
        out.evaluations += len(sres)
        out.notes["stubbed_requests"] = len(reqs)
        for ri, vi, ev in sres:
            e = {k: x for k, x in ev.items() if k != "exc_msg"}
            key = json.dumps(e, sort_keys=True)
            if key not in events:
                events[key] = e
                selfrep = sorted((ev["rp"]["tel"][t], tuple(p)) for t, p in zip(ev["rp"]["ty"], ev["rp"]["pos"])) == \
                    sorted((ev["sp"]["tel"][t], tuple(p)) for t, p in zip(ev["sp"]["ty"], ev["sp"]["pos"]))
                where[key] = (-1, {"rp": "same" if selfrep else "stub", "fn": ev["fn"], "fd": ev["fd"], "replace_all": ev["replace_all"] == "yes",
                                   "param": bool(ev["rp"]["tpc"]), "stub_variant": vi}, ev)
        out.notes["phase_end_s"]["stubbed"] = round(time.time() - t0, 1)
    keys = list(events)
    verdicts = shard_validate("Trace_Replace", TRACE_CFG, [events[k] for k in keys], shards=14, workers=1, tag="val-" + prop)
    out.traces = len(keys)
    out.notes["phase_end_s"]["validate"] = round(time.time() - t0, 1)
    by = {}
    for k, vd in zip(keys, verdicts):
        e = events[k]
        ci, rq, ev = where[k]
        if e["found"]:
            out.case(e)
        if vd == "ok":
            if e["found"] and ci >= 0:
                out.sample({"cell": e["pre"]["cell"], "search": crystals[ci]["patname"], "replacement": rq["rp"],
                            "fraction": [rq["fn"], rq["fd"]], "replace_all": rq["replace_all"], "matches": len(e["found"]),
                            "replaced": e["count"], "atoms_before": len(e["pre"]["q"]), "atoms_after": len(e["post"]["q"])})
            continue
        by[vd] = by.get(vd, 0) + 1
        if attribute(prop, vd, rq):
            sig = {"op": "replace", "clause": vd, "flags": flags(crystals[ci] if ci >= 0 else None, rq, e), "exc": ev["exc"],
                   "exc_msg": ev.get("exc_msg", "")}
            out.violation(sig, {"crystal": crystals[ci] if ci >= 0 else None, "request": rq, "observed": ev})
    out.notes["rejected_by_clause"] = by
    if prop == "C08" and not replay:
        from . import realfiles
        realfiles.run_c08(out, tier, sd)
    out.assumptions = ["harness/replaceops.py + katoms.py + findops.py rendering/projection (numpy)",
                       "the search inside the call is observed by rebinding mofun.mofun.find_pattern_in_structure",
                       "poses of planted copies are cube rotations (plus seeded global rotations / joint pattern motions)"]
    return out.finish()


def flags(crystal, rq, e):
    f = []
    c = e["pre"]["cell"]
    if c and any(c[i][j] != 0 for i in range(3) for j in range(3) if i != j):
        f.append("tilted-cell")
    if e["pre"]["q"] and not e["pre"]["tpc"] and e["rp"]["tpc"]:
        f.append("parameterised-pattern-into-structure-without-pair-table")
    if e["stub"] == "yes":
        f.append("stubbed-search")
    f.append("rp-" + rq["rp"])
    return f
