"""bin/check entry point.  exit 0: property held on everything explored; 1: violation; 2: machinery failure."""
import argparse
import os
import sys
import traceback

from .tlcrun import MachineryError


def main():
    ap = argparse.ArgumentParser()
    ap.add_argument("prop")
    ap.add_argument("--tier", default=os.environ.get("VERIF_TIER", "quick"), choices=["quick", "thorough"])
    ap.add_argument("--replay", default=None)
    a = ap.parse_args()
    if a.replay:
        os.environ["VERIF_REPLAY"] = "1"        # a replay does not overwrite the evidence of the last full run
    try:
        if a.prop in ("C09", "C10", "C11", "C12"):
            from . import atomsops
            rc = atomsops.run(a.prop, a.tier, a.replay)
        elif a.prop in ("C01", "C02", "C03"):
            from . import findops
            rc = findops.run(a.prop, a.tier, a.replay)
        elif a.prop in ("C04", "C05", "C06", "C07", "C08"):
            from . import replaceops
            rc = replaceops.run(a.prop, a.tier, a.replay)
        elif a.prop == "C20":
            from . import cliops
            rc = cliops.run(a.prop, a.tier, a.replay)
        elif a.prop == "C19":
            from . import termops
            rc = termops.run(a.prop, a.tier, a.replay)
        elif a.prop == "C18":
            from . import uffops
            rc = uffops.run(a.prop, a.tier, a.replay)
        elif a.prop == "C17":
            from . import bondops
            rc = bondops.run(a.prop, a.tier, a.replay)
        elif a.prop == "C15":
            from . import cifops
            rc = cifops.run(a.prop, a.tier, a.replay)
        elif a.prop == "C13":
            from . import lmpops
            rc = lmpops.run(a.prop, a.tier, a.replay)
        elif a.prop == "C16":
            from . import cmlops
            rc = cmlops.run(a.prop, a.tier, a.replay)
        elif a.prop == "C14":
            from . import massops
            rc = massops.run(a.prop, a.tier, a.replay)
        else:
            print("no check registered for %s" % a.prop)
            rc = 2
    except MachineryError as e:
        print("MACHINERY-FAILURE %s: %s" % (a.prop, e))
        rc = 2
    except Exception:
        traceback.print_exc()
        print("MACHINERY-FAILURE %s: unexpected exception in harness" % a.prop)
        rc = 2
    sys.exit(rc)


if __name__ == "__main__":
    main()
