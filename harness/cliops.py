"""C20: the command-line tool.  MC_Cli (TLC) enumerates option sets; for each the console entry point is invoked
in-process (click CliRunner) on files written by the harness, with the API calls it makes recorded by rebinding
Atoms.load / Atoms.replicate / Atoms.save and the names bound in mofun.cli.mofun_cli; the same work is done through
the API with the same seeds; TLC (Trace_Cli) judges the recorded call sequence, the option values reaching the calls
and the equality flags."""
import contextlib
import io
import json
import math
import os
import random
import tempfile
from fractions import Fraction

import numpy as np

from .tlcrun import run_tlc, tla_string_to_json, MachineryError, BUILD
from .common import Outcome, shard_validate, seed
from . import cifops, cmlops

TRACE_CFG = "SPECIFICATION Spec\nINVARIANT Report\nCHECK_DEADLOCK FALSE\n"
S = 1.6
CELL = [6, 7, 8]
STRUCT = [("C", (1, 1, 1)), ("N", (3, 1, 1)), ("O", (1, 2, 1)), ("C", (4, 5, 7)), ("N", (4, 0, 7)), ("O", (3, 5, 7)), ("Zn", (2, 4, 4))]
FIND = [("C", (0, 0, 0)), ("N", (2, 0, 0)), ("O", (0, 1, 0))]
REPL = [("C", (0, 0, 0)), ("N", (2, 0, 0)), ("S", (0, 1, 0)), ("H", (0, 1, 1))]
MASS = {"C": 12.0107, "N": 14.0067, "O": 15.9994, "Zn": 65.38, "S": 32.065, "H": 1.00794}


# the same structure with one atom exactly on the upper x face of the box and one below the lower z face (legal in LAMMPS
# data files), and force-field style type labels
STRUCT_FACE = STRUCT[:6] + [("Zn", (6, 4, 4)), ("Zn", (2, 3, -1))]
UFF_LABEL = {"C": "C_R", "N": "N_R", "O": "O_2", "Zn": "Zn3+2", "S": "S_3+2", "H": "H_"}


def lmpdat_text(atoms, cell, labels=None):
    els = []
    for e, _ in atoms:
        if e not in els:
            els.append(e)
    L = ["fixture", "", "%d atoms" % len(atoms), "0 bonds", "0 angles", "0 dihedrals", "0 impropers", "", "%d atom types" % len(els), ""]
    if cell:
        for c, ax in zip(cell, "xyz"):
            L.append(" 0.000000 %.6f %slo %shi" % (c * S, ax, ax))
    L += ["", "Masses", ""] + [" %d %.6f   # %s" % (i + 1, MASS[e], (labels or {}).get(e, e)) for i, e in enumerate(els)]
    L += ["", "Atoms", ""]
    for i, (e, p) in enumerate(atoms):
        L.append(" %d 1 %d %.6f %.6f %.6f %.6f" % (i + 1, els.index(e) + 1, 0.0, p[0] * S, p[1] * S, p[2] * S))
    return "\n".join(L) + "\n"


def cif_text(atoms, cell):
    L = ["data_fixture", "_symmetry_space_group_name_H-M 'P 1'"]
    for k, v in zip(("_cell_length_a", "_cell_length_b", "_cell_length_c"), cell):
        L.append("%s %.4f" % (k, v * S))
    L += ["_cell_angle_alpha 90.0", "_cell_angle_beta 90.0", "_cell_angle_gamma 90.0", "loop_", "_atom_site_label", "_atom_site_type_symbol",
          "_atom_site_fract_x", "_atom_site_fract_y", "_atom_site_fract_z"]
    n = {}
    for e, p in atoms:
        n[e] = n.get(e, 0) + 1
        L.append("%s%d %s %.6f %.6f %.6f" % (e, n[e], e, p[0] / cell[0], p[1] / cell[1], p[2] / cell[2]))
    return "\n".join(L) + "\n"


def cml_text(atoms, bonds=((0, 1),)):
    L = ["<molecule>", "  <atomArray>"]
    for i, (e, p) in enumerate(atoms):
        L.append('    <atom id="a%d" elementType="%s" x3="%.6f" y3="%.6f" z3="%.6f" />' % (i + 1, e, p[0] * S, p[1] * S, p[2] * S))
    L += ["  </atomArray>", "  <bondArray>"]
    for a, b in bonds:
        L.append('    <bond atomRefs2="a%d a%d" order="1" />' % (a + 1, b + 1))
    L += ["  </bondArray>", "</molecule>"]
    return "\n".join(L) + "\n"


class Recorder:
    """records the API calls the command-line function makes"""

    def __init__(self, roles):
        self.calls = []
        self.roles = roles

    def __enter__(self):
        import mofun.cli.mofun_cli as cm
        from mofun import Atoms
        self.cm, self.Atoms = cm, Atoms
        self.saved = {"load": Atoms.__dict__["load"], "replicate": Atoms.replicate, "save": Atoms.save,
                      "rep": cm.replace_pattern_in_structure, "find": cm.find_pattern_in_structure, "pp": cm.assign_pair_params_to_structure}
        rec = self

        def call(name, what="", dims=(0, 0, 0), atol=0, fn=0, fd=1, hints=(-1, -1, -1)):
            rec.calls.append({"name": name, "what": what, "dims": [int(x) for x in dims], "atol": int(atol), "fn": int(fn), "fd": int(fd),
                              "hints": [(-1 if h is None else int(h)) for h in hints]})
        oload = self.saved["load"].__func__

        def load(cls, f, *a, **k):
            call("load", rec.roles.get(os.path.basename(str(f)), "?"))
            return oload(cls, f, *a, **k)

        def replicate(self_, dims=(1, 1, 1)):
            call("replicate", dims=tuple(int(x) for x in dims))
            return rec.saved["replicate"](self_, dims)

        def save(self_, f, *a, **k):
            call("save", rec.roles.get(os.path.basename(str(f)), "?"))
            return rec.saved["save"](self_, f, *a, **k)

        def rep(structure, sp, rp, **k):
            fr = Fraction(k.get("replace_fraction", 1.0)).limit_denominator(24)
            call("replace", atol=round(k.get("atol", 5e-2) * 1e4), fn=fr.numerator, fd=fr.denominator,
                 hints=(k.get("axisp1_idx"), k.get("axisp2_idx"), k.get("opoint_idx")))
            return rec.saved["rep"](structure, sp, rp, **k)

        def find(structure, pattern, **k):
            call("find", atol=round(k.get("atol", 5e-2) * 1e4))
            return rec.saved["find"](structure, pattern, **k)

        def pp(structure):
            call("assign_pair")
            return rec.saved["pp"](structure)
        Atoms.load = classmethod(load)
        Atoms.replicate = replicate
        Atoms.save = save
        cm.replace_pattern_in_structure = rep
        cm.find_pattern_in_structure = find
        cm.assign_pair_params_to_structure = pp
        return self

    def __exit__(self, *exc):
        self.Atoms.load = self.saved["load"]
        self.Atoms.replicate = self.saved["replicate"]
        self.Atoms.save = self.saved["save"]
        self.cm.replace_pattern_in_structure = self.saved["rep"]
        self.cm.find_pattern_in_structure = self.saved["find"]
        self.cm.assign_pair_params_to_structure = self.saved["pp"]
        return False


def api_pipeline(O, paths, charges, sd):
    """the same work through the API"""
    from mofun import Atoms, replace_pattern_in_structure, find_pattern_in_structure
    import mofun.cli.mofun_cli as cm
    atoms = Atoms.load(paths["input"])
    if O["uc"] == "yes":
        atoms.cell = Atoms.load(paths["uc"]).cell
    if O["charges"] == "yes":
        atoms.charges = np.array(charges)
    if O["replicate"] != [0, 0, 0]:
        atoms = atoms.replicate(tuple(O["replicate"]))
    if O["mic2"] > 0:
        mic = O["mic2"] / 2e4
        atoms = atoms.replicate(np.array(np.ceil(2 * mic / np.diag(atoms.cell)), dtype=int))
    if O["pp"] == "yes":
        # what the option is documented to do, written out with the API's table and pair_coeffs(): every atom type is
        # labelled with the first UFF type of its element and gets that type's Lennard-Jones parameters (neither the helper
        # inside the command-line module nor the label inference of rough_uff.assign_pair_coeffs is used)
        from mofun.rough_uff import pair_coeffs
        from mofun.uff4mof import UFF4MOF
        keys = [[k for k in UFF4MOF if k.startswith(el.ljust(2, "_"))][0] for el in atoms.atom_type_elements]
        atoms.atom_type_labels = keys
        atoms.pair_coeffs = ['%10.6f %10.6f # %s' % (*pair_coeffs(k), k) for k in keys]
    found = None
    random.seed(sd)
    np.random.seed(sd)
    if O["find"] == "yes":
        sp = Atoms.load(paths["find"])
        if O["replace"] == "yes":
            rp = Atoms.load(paths["replace"])
            h = [None if x < 0 else x for x in O["hints"]]
            atoms = replace_pattern_in_structure(atoms, sp, rp, atol=O["atol"] / 1e4, replace_fraction=O["fn"] / O["fd"],
                                                 axisp1_idx=h[0], axisp2_idx=h[1], opoint_idx=h[2])
        else:
            # find-only: the structure is written as loaded (the search gets its own copy)
            found = find_pattern_in_structure(atoms.copy(), sp, atol=O["atol"] / 1e4)
    atoms.save(paths["api_output"])
    return found


def run_one(O, td, sd, extra_args=()):
    from click.testing import CliRunner
    import mofun.cli.mofun_cli as cm
    names = {"input": "in." + O["input"], "output": "out." + O["output"], "find": "find.cml", "replace": "repl.cml", "uc": "cell.cif",
             "api_output": "api." + O["output"], "charges": "q.txt"}
    paths = {k: os.path.join(td, v) for k, v in names.items()}
    roles = {v: k for k, v in names.items()}
    pick = sum(ord(c) for c in json.dumps(O, sort_keys=True)) + sd
    struct = STRUCT_FACE if (O["input"] == "lmpdat" and pick % 2 == 1) else STRUCT
    text = {"lmpdat": lmpdat_text(struct, CELL, UFF_LABEL if (pick % 4 >= 2 or O["pp"] == "yes") else None), "cif": cif_text(STRUCT, CELL), "cml": cml_text(STRUCT)}[O["input"]]
    open(paths["input"], "w").write(text)
    open(paths["find"], "w").write(cml_text(FIND))
    open(paths["replace"], "w").write(cml_text(REPL, bonds=((0, 1), (2, 3))))
    open(paths["uc"], "w").write(cif_text(STRUCT[:1], CELL))
    charges = [round(0.125 * (i - 3), 6) for i in range(len(struct))]
    open(paths["charges"], "w").write("\n".join("%.6f" % q for q in charges) + "\n\n")
    for p in (paths["output"], paths["api_output"]):
        if os.path.exists(p):
            os.unlink(p)
    args = [paths["input"], paths["output"]]
    if O["find"] == "yes":
        args += ["-f", paths["find"]]
    if O["replace"] == "yes":
        args += ["-r", paths["replace"]]
        if (O["fn"], O["fd"]) != (1, 1):
            args += ["-p", repr(O["fn"] / O["fd"])]
        if O["hints"] != [-1, -1, -1]:
            args += ["-ap1", str(O["hints"][0]), "-ap2", str(O["hints"][1]), "-op", str(O["hints"][2])]
    if O["atol"] != 500:
        args += ["--atol", repr(O["atol"] / 1e4)]
    if O["replicate"] != [0, 0, 0]:
        args += ["--replicate"] + [str(x) for x in O["replicate"]]
    if O["mic2"] > 0:
        args += ["--mic", repr(O["mic2"] / 2e4)]
    if O["pp"] == "yes":
        args += ["--pp"]
    if O["uc"] == "yes":
        args += ["--extract-uc", paths["uc"]]
    if O["charges"] == "yes":
        args += ["-q", paths["charges"]]
    args += list(extra_args)
    ev = {"O": O, "calls": [], "exit": 0, "exc": "none", "same": "yes", "charges": "ok", "findout": "yes"}
    random.seed(sd)
    np.random.seed(sd)
    with Recorder(roles) as rec:
        with contextlib.redirect_stderr(io.StringIO()):
            r = CliRunner().invoke(cm.mofun_cli, args)
    ev["calls"] = rec.calls
    ev["exit"] = int(r.exit_code)
    if r.exception is not None and not isinstance(r.exception, SystemExit):
        ev["exc"] = type(r.exception).__name__
        ev["exc_msg"] = str(r.exception)[:200]
        return ev
    try:
        with contextlib.redirect_stderr(io.StringIO()), contextlib.redirect_stdout(io.StringIO()):
            found = api_pipeline(O, paths, charges, sd)
        if not os.path.exists(paths["output"]) or open(paths["output"]).read() != open(paths["api_output"]).read():
            ev["same"] = "no"
        if O["charges"] == "yes" and O["output"] == "lmpdat":
            from mofun import Atoms
            with contextlib.redirect_stderr(io.StringIO()):
                q = list(Atoms.load(paths["output"]).charges)
            ncell = len(q) // len(charges)
            if O["replace"] == "no" and (len(q) % len(charges) != 0 or not np.allclose(sorted(q), sorted(charges * ncell), atol=1e-6)):
                ev["charges"] = "charges of the output are not the ones of the charge file"
        if O["find"] == "yes" and O["replace"] == "no":
            out = r.output
            if ("Found %d instances" % len(found)) not in out or str(found) not in out:
                ev["findout"] = "no"
    except Exception as e:
        ev["same"] = "no"
        ev["exc_msg"] = "api pipeline: %s: %s" % (type(e).__name__, str(e)[:150])
    return ev


# the command lines of docs/examples.md, in document order; a pipeline's later commands read the earlier ones' output
DOC_PIPELINES = [
    ["uio66.cif uio66-oh.cif --find uio66-linker.cml --replace uio66-linker-oh.cml"],
    ["uio66.cif uio66-defective-10.cif -f uio66-linker.cml -r uio66-linker-defective.cml --replicate 2 2 2 --replace-fraction=0.10"],
    ["uio66.cif uio66-defective-90.cif -f uio66-linker.cml -r uio66-linker-defective.cml --replicate 2 2 2 --replace-fraction=0.90"],
    ["uio66.cif uio66-param1.lmpdat --find uio66-metal-center.cml --replace uio66-metal-center-parameterized.lmpdat",
     "uio66-param1.lmpdat uio66-parameterized.lmpdat --find uio66-linker-Zr.cml --replace uio66-linker-Zr-parameterized.lmpdat"],
    ["uio66.cif uio66-param1.lmpdat --find uio66-metal-center-parameterized.lmpdat --replace uio66-metal-center-parameterized.lmpdat",
     "uio66-param1.lmpdat uio66-parameterized.lmpdat --find uio66-linker-Zr-parameterized.lmpdat --replace uio66-linker-Zr-parameterized.lmpdat"],
    ["uio66.cif uio66-zrhf1.cif --replicate 2 2 2 --find uio66-metal-center-simple.cml --replace uio66-metal-center-hf1.cml --replace-fraction=0.4",
     "uio66-zrhf1.cif uio66-50perc-zr-hf-by-cluster.cif --find uio66-metal-center-simple.cml --replace uio66-metal-center-hf2.cml"],
]


def parse_doc_command(line):
    """documented command line -> (option record O in the vocabulary of Cli.tla, file names by role)"""
    tok = line.split()
    files = {"input": tok[0], "output": tok[1]}
    O = {"input": tok[0].rsplit(".", 1)[1], "output": tok[1].rsplit(".", 1)[1], "find": "no", "replace": "no", "atol": 500, "fn": 1, "fd": 1,
         "hints": [-1, -1, -1], "replicate": [0, 0, 0], "mic2": 0, "pp": "no", "uc": "no", "charges": "no", "celldiag": [0, 0, 0]}
    i = 2
    while i < len(tok):
        t = tok[i]
        if t in ("-f", "--find"):
            O["find"], files["find"] = "yes", tok[i + 1]
            i += 2
        elif t in ("-r", "--replace"):
            O["replace"], files["replace"] = "yes", tok[i + 1]
            i += 2
        elif t == "--replicate":
            O["replicate"] = [int(x) for x in tok[i + 1:i + 4]]
            i += 4
        elif t.startswith("--replace-fraction="):
            fr = Fraction(float(t.split("=", 1)[1])).limit_denominator(24)
            O["fn"], O["fd"] = fr.numerator, fr.denominator
            i += 1
        else:
            raise MachineryError("documented command line uses an option the harness does not know: %s" % t)
    return O, files


def run_doc_pipeline(cmds, td, sd):
    """the command lines of one documented example, run in a scratch copy of docs/examples; one event per command"""
    import shutil
    import mofun
    from click.testing import CliRunner
    import mofun.cli.mofun_cli as cm
    from mofun import Atoms
    src = os.path.join(os.path.dirname(os.path.dirname(os.path.abspath(mofun.__file__))), "docs", "examples")
    wd = tempfile.mkdtemp(dir=td)
    for f in os.listdir(src):
        shutil.copy(os.path.join(src, f), wd)
    out = []
    for line in cmds:
        O, files = parse_doc_command(line)
        paths = {k: os.path.join(wd, v) for k, v in files.items()}
        paths["api_output"] = os.path.join(wd, "api-" + files["output"])
        roles = {v: k for k, v in files.items()}
        if files.get("find") == files.get("replace") and "find" in files:
            roles[files["find"]] = "find+replace"
        ev = {"O": O, "calls": [], "exit": 0, "exc": "none", "same": "yes", "charges": "ok", "findout": "yes", "doc": line}
        try:
            with contextlib.redirect_stderr(io.StringIO()), contextlib.redirect_stdout(io.StringIO()):
                cell = np.array(Atoms.load(paths["input"]).cell, dtype=float)
            if np.allclose(cell, np.diag(np.diag(cell)), atol=1e-9):
                O["celldiag"] = [int(round(x * 1e4)) for x in np.diag(cell)]
        except Exception as e:
            ev["exc"], ev["exc_msg"] = "input-unreadable", str(e)[:150]
            out.append(ev)
            break
        random.seed(sd)
        np.random.seed(sd)
        cwd = os.getcwd()
        with Recorder(roles) as rec:
            try:
                os.chdir(wd)
                with contextlib.redirect_stderr(io.StringIO()):
                    r = CliRunner().invoke(cm.mofun_cli, line.split())
            finally:
                os.chdir(cwd)
        # a file given both as search and as replacement pattern is loaded twice: first as "find", then as "replace"
        seen = 0
        for c in rec.calls:
            if c["what"] == "find+replace":
                c["what"] = "find" if seen == 0 else "replace"
                seen += 1
        ev["calls"] = rec.calls
        ev["exit"] = int(r.exit_code)
        if r.exception is not None and not isinstance(r.exception, SystemExit):
            ev["exc"], ev["exc_msg"] = type(r.exception).__name__, str(r.exception)[:200]
            out.append(ev)
            break
        try:
            with contextlib.redirect_stderr(io.StringIO()), contextlib.redirect_stdout(io.StringIO()):
                api_pipeline(O, paths, [], sd)
            if not os.path.exists(paths["output"]) or open(paths["output"]).read() != open(paths["api_output"]).read():
                ev["same"] = "no"
        except Exception as e:
            ev["same"] = "no"
            ev["exc_msg"] = "api pipeline: %s: %s" % (type(e).__name__, str(e)[:150])
        out.append(ev)
    shutil.rmtree(wd, ignore_errors=True)
    return out


def cfg(maxopts, emit):
    return ("SPECIFICATION Spec\nCONSTANTS\n  MaxOpts = %d\n  Emit = %s\nINVARIANT %s\nCHECK_DEADLOCK FALSE\n"
            % (maxopts, "TRUE" if emit else "FALSE", "EmitInv" if emit else "ModelInv"))


def run(prop, tier, replay=None):
    out = Outcome(prop, tier)
    sd = seed()
    maxopts = 2 if tier == "quick" else 4
    out.rule = ("option sets = every state of MC_Cli (3 input formats x 2 output formats x 3 modes x every subset of <= %d of the options "
                "atol / fraction / hints / replicate / mic / charge file / pp / extract-uc with non-default values); quick: a seeded sample; "
                "each run in-process through click and through the API with the same seeds; plus --framework-element runs; plus the nine documented command lines of docs/examples.md on the documented files (pipelines of two commands feed the first output to the second)" % maxopts)
    doc_replay = None
    if replay:
        rp = json.load(open(replay))["case"]
        opts = [rp["O"]]
        if rp.get("doc_pipeline"):
            opts, doc_replay = [], rp["doc_pipeline"]
    else:
        res = run_tlc("MC_Cli", cfg(maxopts, False), workers=8, timeout=1200, tag="mccli")
        if res.error:
            raise MachineryError("MC_Cli failed:\n" + res.error)
        out.model("MC_Cli", res)
        if res.violated:
            out.violation({"op": "spec", "clause": "model property violated: %s" % res.violated}, {"tlc": res.stdout[-2000:]})
        e = run_tlc("MC_Cli", cfg(maxopts, True), workers=4, timeout=1200, tag="gencli")
        if e.error:
            raise MachineryError("MC_Cli emission failed:\n" + e.error)
        opts = [tla_string_to_json(rest) for t, rest in e.printed if t == "OPTS"]
        if tier == "quick":
            random.Random(sd).shuffle(opts)
            opts = opts[:220]
    os.makedirs(BUILD, exist_ok=True)
    events = []
    with tempfile.TemporaryDirectory(dir=BUILD) as td:
        for O in opts:
            events.append((O, [], run_one(O, td, sd)))
        if doc_replay:
            for cmds in doc_replay:
                for ev in run_doc_pipeline(cmds, td, sd):
                    events.append((ev["O"], ["documented-example"], ev))
        if not replay:
            for O in opts[:2]:
                events.append((O, ["framework-element"], run_one(O, td, sd, extra_args=("--framework-element", "C"))))
            ndoc = 0
            for cmds in DOC_PIPELINES:
                for ev in run_doc_pipeline(cmds, td, sd):
                    events.append((ev["O"], ["documented-example"], ev))
                    ndoc += 1
            out.notes["documented_command_lines"] = ndoc
    out.evaluations = len(events)
    items = [{k: v for k, v in ev.items() if k not in ("exc_msg", "doc")} for _, _, ev in events]
    verdicts = shard_validate("Trace_Cli", TRACE_CFG, items, shards=6, workers=1, tag="val-C20")
    out.traces = len(items)
    by = {}
    for (O, fl, ev), vd in zip(events, verdicts):
        out.case(ev["O"] if not fl else {"O": ev["O"], "fl": fl})
        if vd == "ok":
            out.sample({"options": {k: v for k, v in O.items() if k != "celldiag"}, "calls": [c["name"] + (":" + c["what"] if c["what"] else "") for c in ev["calls"]]})
            continue
        by[vd] = by.get(vd, 0) + 1
        out.violation({"op": "cli", "clause": vd, "flags": fl + ["out-" + O["output"]], "exc": ev["exc"], "exc_msg": ev.get("exc_msg", "")},
                      {"O": O, "observed": ev, "doc_pipeline": [c for c in DOC_PIPELINES if ev.get("doc") in c]})
    out.notes["rejected_by_clause"] = by
    out.assumptions = ["harness/cliops.py: fixture files, recording wrappers (rebinding of Atoms.load / replicate / save and the names bound in "
                       "mofun.cli.mofun_cli), the API pipeline the output is compared with",
                       "one generated fixture crystal (7 atoms, two occurrences, one across a boundary) for the enumerated option sets; the nine command lines of docs/examples.md run on the files of docs/examples (call trace + output = API pipeline; what the replacement does to uio66 is the subject of C03-C08)"]
    return out.finish()
