"""C14: elements inferred from masses.  MC_MassGuess (TLC) enumerates masses over the whole table and its
boundaries; each case is run through guess_elements_from_masses and through load_lmpdat; TLC judges the answers."""
import contextlib
import io
import json

from . import gen
from .tlcrun import run_tlc, tla_string_to_json, MachineryError
from .common import Outcome, shard_validate, seed

TRACE_CFG = "SPECIFICATION Spec\nINVARIANT Report\nCHECK_DEADLOCK FALSE\n"


def cfg(tols, emit):
    return ("SPECIFICATION Spec\nCONSTANTS\n  Tols = {%s}\n  Emit = %s\nINVARIANT %s\nCHECK_DEADLOCK FALSE\n"
            % (", ".join(str(t) for t in tols), "TRUE" if emit else "FALSE", "EmitInv" if emit else "ModelInv"))


def lmpdat_text(ms):
    n = len(ms)
    lines = ["masses only (written by the C14 harness)", "", "%d atoms" % n, "0 bonds", "", "%d atom types" % n, "",
             " 0.000000 20.000000 xlo xhi", " 0.000000 20.000000 ylo yhi", " 0.000000 20.000000 zlo zhi", "", "Masses", ""]
    lines += [" %d %.6f" % (k + 1, m / 1e6) for k, m in enumerate(ms)]
    lines += ["", "Atoms", ""]
    lines += [" %d 1 %d 0.000000 %d.000000 1.000000 1.000000" % (k + 1, k + 1, k + 1) for k in range(n)]
    return "\n".join(lines) + "\n"


def execute(case):
    from mofun.helpers import guess_elements_from_masses
    from mofun import Atoms
    ms, tol = case["ms"], case["tol"]
    out = []
    ev = {"kind": "guess", "ms": ms, "tol": tol, "els": [], "raised": "no"}
    try:
        ev["els"] = [str(e) for e in guess_elements_from_masses([m / 1e6 for m in ms], max_delta=tol / 1e6)]
    except Exception:
        ev["raised"] = "yes"
    out.append(ev)
    ev2 = {"kind": "load", "ms": ms, "tol": tol, "els": [], "raised": "no"}
    try:
        with contextlib.redirect_stderr(io.StringIO()), contextlib.redirect_stdout(io.StringIO()):
            a = Atoms.load_lmpdat(io.StringIO(lmpdat_text(ms)), guess_atol=tol / 1e6)
        ev2["els"] = [str(e) for e in a.atom_type_elements]
        if [str(e) for e in a.elements] != ev2["els"]:
            ev2["els"] = ["per-atom-elements-differ"]
    except Exception as e:
        ev2["els"] = ["load-raised:" + type(e).__name__]
    out.append(ev2)
    return out


def cycle_events(only=None):
    """write/read cycles: a structure built from element symbols (the library supplies the masses) is written as LAMMPS
    data and loaded again with the default tolerance; one file per table element, plus mixed structures"""
    from mofun import Atoms
    from mofun.atomic_masses import ATOMIC_MASSES
    names = [str(k) for k in ATOMIC_MASSES]
    groups = [[n] for n in names] + [names[k:k + 7] for k in range(0, len(names), 7)] + [["C", "H", "O", "Zr", "Bi", "Po"], names[::-1][:12]]
    out = []
    for els in (groups if only is None else [only]):
        ev = {"kind": "cycle", "elin": els, "ms": [], "tol": 100000, "els": [], "raised": "no"}
        try:
            with contextlib.redirect_stderr(io.StringIO()), contextlib.redirect_stdout(io.StringIO()):
                a = Atoms(elements=els, positions=[[float(i), 0.0, 0.0] for i in range(len(els))], cell=[[50.0, 0, 0], [0, 50.0, 0], [0, 0, 50.0]])
                buf = io.StringIO()
                a.save_lmpdat(buf)
                b = Atoms.load_lmpdat(io.StringIO(buf.getvalue()))
            ev["els"] = [str(e) for e in b.atom_type_elements]
        except Exception as e:
            ev["els"] = ["cycle-raised:" + type(e).__name__]
        out.append(ev)
    return out


def run(prop, tier, replay=None):
    out = Outcome(prop, tier)
    g = gen.all_tables()
    tols = [100000, 10000] if tier == "quick" else [100000, 10000, 500000, 1000]
    out.rule = ("cases = every state of MC_MassGuess (exhaustive over the mass table: tabulated masses, +-(tol-2u), +-(tol+2u), "
                "+-tol, midpoints between mass neighbours -+3u, non-atomic masses, mixed lists) x tolerances %s; each run through "
                "guess_elements_from_masses and load_lmpdat; non-trivial = all" % tols)
    only_cycle = None
    if replay:
        cases = [json.load(open(replay))["case"]["case"]]
        if "cycle" in cases[0]:
            only_cycle, cases = cases[0]["cycle"], []
    else:
        res = run_tlc("MC_MassGuess", cfg(tols, False), workers=8, timeout=1200, extra_modules_dir=g, tag="mcmass")
        if res.error:
            raise MachineryError("MC_MassGuess failed:\n" + res.error)
        out.model("MC_MassGuess", res)
        if res.violated:
            out.violation({"op": "spec", "clause": "model property violated: %s" % res.violated}, {"tlc": res.stdout[-2000:]})
        e = run_tlc("MC_MassGuess", cfg(tols, True), workers=4, timeout=1200, extra_modules_dir=g, tag="genmass")
        if e.error:
            raise MachineryError("MC_MassGuess emission failed:\n" + e.error)
        cases = [tla_string_to_json(rest) for t, rest in e.printed if t == "CASE"]
        out.exhaustive = True
    # loose tolerances first, so that anything remembered from a loose call would be visible in a strict one
    cases.sort(key=lambda c: (-c["tol"], c["ms"]))
    events, src = [], []
    for c in cases:
        for ev in execute(c):
            events.append(ev)
            src.append(c)
    if not replay or only_cycle is not None:
        for ev in cycle_events(only_cycle):
            events.append(ev)
            src.append({"cycle": ev["elin"]})
    for ev in events:
        ev.setdefault("elin", [])
    out.evaluations = len(events)
    verdicts = shard_validate("Trace_MassGuess", TRACE_CFG, events, shards=6, workers=1, tag="val-C14", extra=g)
    out.traces = len(events)
    by = {}
    for ev, c, vd in zip(events, src, verdicts):
        out.case(ev)
        if vd == "ok":
            out.sample({"elements_in": ev["elin"], "masses_micro": ev["ms"], "tol_micro": ev["tol"], "via": ev["kind"], "elements": ev["els"], "raised": ev["raised"]})
            continue
        by[vd] = by.get(vd, 0) + 1
        if vd.startswith("blocked"):
            continue
        out.violation({"op": ev["kind"], "clause": vd, "flags": [], "ms": ev["ms"], "elin": ev["elin"], "tol": ev["tol"], "els": ev["els"]},
                      {"case": c, "observed": ev})
    out.notes["rejected_by_clause"] = by
    out.assumptions = ["mass table read from /repo/mofun/atomic_masses.py at run time (the property is about that table)",
                       "masses are multiples of 1e-6 (exactly printable at the file's precision)"]
    return out.finish()
