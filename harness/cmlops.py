"""C16: CML molecules.  MC_Cml (TLC) enumerates documents; each is rendered to XML, loaded through Atoms.load by path
and by open file and through Atoms.load_cml; TLC judges what was loaded against CmlDoc.Load."""
import contextlib
import io
import json
import os
import tempfile

import numpy as np

from .tlcrun import run_tlc, tla_string_to_json, MachineryError, BUILD
from .common import Outcome, shard_validate, seed

TRACE_CFG = "SPECIFICATION Spec\nINVARIANT Report\nCHECK_DEADLOCK FALSE\n"


def cfg(c, emit):
    return ("SPECIFICATION Spec\nCONSTANTS\n  MaxAtoms = %d\n  MaxBonds = %d\n  Emit = %s\nINVARIANT %s\nCHECK_DEADLOCK FALSE\n"
            % (c["MaxAtoms"], c["MaxBonds"], "TRUE" if emit else "FALSE", "EmitInv" if emit else "ModelInv"))


def to_xml(doc):
    lines = ["<molecule>", "  <atomArray>"]
    for a in doc["atoms"]:
        lines.append('    <atom id="%s" elementType="%s" x3="%s" y3="%s" z3="%s" />' % (a["id"], a["el"], a["x"]["text"], a["y"]["text"], a["z"]["text"]))
    lines.append("  </atomArray>")
    lines.append("  <bondArray>")
    for b in doc["bonds"]:
        lines.append('    <bond atomRefs2="%s %s" order="%d" />' % (b["a"], b["b"], b["order"]))
    lines += ["  </bondArray>", "  <dataMap />", "</molecule>"]
    return "\n".join(lines) + "\n"


def observe(doc, tmpdir):
    from mofun import Atoms
    text = to_xml(doc)
    path = os.path.join(tmpdir, "m.cml")
    with open(path, "w") as fh:
        fh.write(text)
    obs = {"exc": "none", "els": [], "pos": [], "res": "ok", "bonds": [], "same": "yes"}
    try:
        with contextlib.redirect_stderr(io.StringIO()), contextlib.redirect_stdout(io.StringIO()):
            first = Atoms.load(path)
            # the loaded object is the caller's: editing it in place must not change what a later load returns
            first.translate([7.0, -3.0, 2.0])
            if len(first) > 1:
                del first[[0]]
            a = Atoms.load(path)
            with open(path) as fh:
                b = Atoms.load(fh, filetype="cml")
            c = Atoms.load_cml(path)
    except Exception as e:
        obs["exc"] = type(e).__name__
        obs["exc_msg"] = str(e)[:200]
        return obs
    obs["els"] = [str(e) for e in a.elements]
    pos = []
    for i, p in enumerate(np.array(a.positions, dtype=float).reshape(-1, 3)):
        row = []
        for v, key in zip(p, ("x", "y", "z")):
            if i < len(doc["atoms"]):
                e = doc["atoms"][i][key]["e"]
                y = v / (10.0 ** e)
                r = round(y)
                if abs(y - r) > 1e-6 * max(1.0, abs(y)):
                    obs["res"] = "atom %d %s=%r is not %s" % (i, key, v, doc["atoms"][i][key]["text"])
                row.append(int(r))
            else:
                row.append(0)
        pos.append(row)
    obs["pos"] = pos
    obs["bonds"] = [[int(x) for x in t] for t in np.array(a.bonds).reshape(-1, 2)] if len(a.bonds) else []
    for other in (b, c):
        if [str(e) for e in other.elements] != obs["els"] or not np.array_equal(np.array(other.positions), np.array(a.positions)) \
                or not np.array_equal(np.array(other.bonds), np.array(a.bonds)):
            obs["same"] = "no"
    return obs


def run(prop, tier, replay=None):
    out = Outcome(prop, tier)
    c = dict(MaxAtoms=3, MaxBonds=2) if tier == "quick" else dict(MaxAtoms=4, MaxBonds=3)
    out.rule = ("documents = every state of MC_Cml (atoms 1..%(MaxAtoms)d x 5 id schemes x 3 coordinate/element offsets x every bond "
                "sequence of <= %(MaxBonds)d entries incl. none); loaded by path, by open file and by load_cml; non-trivial = all" % c)
    if replay:
        docs = [json.load(open(replay))["case"]["doc"]]
    else:
        res = run_tlc("MC_Cml", cfg(c, False), workers=8, timeout=1200, tag="mccml")
        if res.error:
            raise MachineryError("MC_Cml failed:\n" + res.error)
        out.model("MC_Cml", res)
        if res.violated:
            out.violation({"op": "spec", "clause": "model property violated: %s" % res.violated}, {"tlc": res.stdout[-2000:]})
        e = run_tlc("MC_Cml", cfg(c, True), workers=4, timeout=1200, tag="gencml")
        if e.error:
            raise MachineryError("MC_Cml emission failed:\n" + e.error)
        docs = [tla_string_to_json(rest) for t, rest in e.printed if t == "DOC"]
        out.exhaustive = True
    os.makedirs(BUILD, exist_ok=True)
    events = []
    with tempfile.TemporaryDirectory(dir=BUILD) as td:
        for d in docs:
            events.append({"doc": d, "obs": observe(d, td)})
    out.evaluations = len(events)
    items = [{"doc": e["doc"], "obs": {k: v for k, v in e["obs"].items() if k != "exc_msg"}} for e in events]
    verdicts = shard_validate("Trace_Cml", TRACE_CFG, items, shards=8, workers=1, tag="val-C16")
    out.traces = len(items)
    by = {}
    for e, vd in zip(events, verdicts):
        out.case(e["doc"])
        if vd == "ok":
            out.sample({"ids": [a["id"] for a in e["doc"]["atoms"]], "bonds": [[b["a"], b["b"]] for b in e["doc"]["bonds"]],
                        "loaded_bonds": e["obs"]["bonds"]})
            continue
        by[vd] = by.get(vd, 0) + 1
        fl = ["no-bond-entries"] if not e["doc"]["bonds"] else []
        out.violation({"op": "load_cml", "clause": vd, "flags": fl, "exc": e["obs"]["exc"], "exc_msg": e["obs"].get("exc_msg", "")},
                      {"doc": e["doc"], "observed": e["obs"], "xml": to_xml(e["doc"])})
    out.notes["rejected_by_clause"] = by
    out.assumptions = ["harness/cmlops.py renders the abstract document to XML in the Avogadro flavour of the repository's fixtures"]
    return out.finish()
