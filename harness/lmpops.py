"""C13: LAMMPS data files.  Structures come from histories of MC_AtomsAbs (so stale / unused table entries reach
the writer) and from MC_Lmp (cells, tilts, signs, groups, styles).  Each is written by mofun, the text parsed by an
independent tokenizer (below; never mofun's reader), read back by mofun, written again twice; TLC (Trace_Lmp)
judges the file against LmpFile.JudgeWrite and the re-read structure against JudgeRead."""
import contextlib
import io
import json
import multiprocessing
import os
import random
import re
import tempfile

import numpy as np

from . import atomsops
from .katoms import Rendering, render, project, empty_K, KINDS
from .tlcrun import run_tlc, tla_string_to_json, MachineryError, BUILD
from .common import Outcome, shard_validate, seed

TRACE_CFG = "SPECIFICATION Spec\nINVARIANT Report\nCHECK_DEADLOCK FALSE\n"
SECTIONS = ["Masses", "Pair Coeffs", "Bond Coeffs", "Angle Coeffs", "Dihedral Coeffs", "Improper Coeffs",
            "Atoms", "Bonds", "Angles", "Dihedrals", "Impropers"]
COUNT_WORDS = ["atoms", "bonds", "angles", "dihedrals", "impropers"]
TYPE_WORDS = {"atom types": "atom", "bond types": "bond", "angle types": "angle", "dihedral types": "dihedral",
              "improper types": "improper"}


def micro(tok):
    """decimal token -> integer micro units, exactly (no float)"""
    m = re.fullmatch(r"([-+]?)(\d*)\.?(\d*)(?:[eE]([-+]?\d+))?", tok)
    if not m or (m.group(2) == "" and m.group(3) == ""):
        raise ValueError("not a number: %r" % tok)
    sign = -1 if m.group(1) == "-" else 1
    frac = m.group(3)
    e = int(m.group(4) or 0) + 6 - len(frac)
    n = int((m.group(2) or "0") + frac)
    if e >= 0:
        return sign * n * 10 ** e
    q, r = divmod(n, 10 ** (-e))
    if r:
        raise ValueError("more than 6 decimals: %r" % tok)
    return sign * q


def split_comment(line):
    if "#" in line:
        body, com = line.split("#", 1)
        return body.strip(), com.strip()
    return line.strip(), ""


def coeff_tokens(text):
    body, com = split_comment(text)
    return [body.split(), com]


def tokenize(text, style):
    """independent reader of the LAMMPS data format (header lines, section blocks)"""
    F = {"counts": {w: -1 for w in COUNT_WORDS}, "types": {v: 0 for v in TYPE_WORDS.values()}, "box": [], "tilt": [],
         "sections": [], "masses": [], "pair": [], "bondco": [], "angleco": [], "dihedralco": [], "improperco": [],
         "atoms": [], "bond": [], "angle": [], "dihedral": [], "improper": []}
    lines = text.split("\n")
    box = {}
    sec = None
    for ln, raw in enumerate(lines):
        if ln == 0:
            continue                      # title line
        body, com = split_comment(raw)
        if body == "":
            continue
        if body in SECTIONS:
            sec = body
            F["sections"].append(body)
            continue
        t = body.split()
        if sec is None:
            joined = " ".join(t[1:])
            if len(t) == 2 and t[1] in COUNT_WORDS:
                F["counts"][t[1]] = int(t[0])
            elif joined in TYPE_WORDS:
                F["types"][TYPE_WORDS[joined]] = int(t[0])
            elif len(t) == 4 and t[2:] in (["xlo", "xhi"], ["ylo", "yhi"], ["zlo", "zhi"]):
                box[t[2]] = (micro(t[0]), micro(t[1]))
            elif len(t) == 6 and t[3:] == ["xy", "xz", "yz"]:
                F["tilt"] = [micro(t[0]), micro(t[1]), micro(t[2])]
            else:
                raise ValueError("unrecognised header line %d: %r" % (ln, raw))
        elif sec == "Masses":
            F["masses"].append([int(t[0]), micro(t[1]), com])
        elif sec.endswith("Coeffs"):
            key = {"Pair Coeffs": "pair", "Bond Coeffs": "bondco", "Angle Coeffs": "angleco", "Dihedral Coeffs": "dihedralco",
                   "Improper Coeffs": "improperco"}[sec]
            F[key].append([int(t[0]), t[1:], com])
        elif sec == "Atoms":
            if style == "full":
                F["atoms"].append([int(t[0]), int(t[1]), int(t[2]), micro(t[3]), micro(t[4]), micro(t[5]), micro(t[6])])
            else:
                F["atoms"].append([int(t[0]), 1, int(t[1]), 0, micro(t[2]), micro(t[3]), micro(t[4])])
        else:
            F[{"Bonds": "bond", "Angles": "angle", "Dihedrals": "dihedral", "Impropers": "improper"}[sec]].append([int(x) for x in t])
    if box:
        F["box"] = [box["xlo"][0], box["xlo"][1], box["ylo"][0], box["ylo"][1], box["zlo"][0], box["zlo"][1]]
    return F


def tables(K):
    T = {"tpc": [coeff_tokens(s) for s in K["tpc"]]}
    for k in KINDS:
        T[k] = [coeff_tokens(s) for s in K[k]["co"]]
    return T


def blank_event(K, style, su):
    return {"K": K, "su": su, "T": tables(K), "style": style,
            "F": tokenize("t\n", style), "K2": empty_K(), "T2": tables(empty_K()), "exc": "none", "same_api": "yes", "stable": "yes"}


def observe(atoms, R, style, tmpdir):
    """write / parse / read back / rewrite one real object"""
    from mofun import Atoms
    su = int(round(R.scale * 1e6))
    K = project(atoms, R)
    ev = blank_event(K, style, su)
    if K["wf"] != "ok" or len(atoms) == 0:
        return ev
    p1 = os.path.join(tmpdir, "a.lmpdat")
    try:
        with contextlib.redirect_stderr(io.StringIO()), contextlib.redirect_stdout(io.StringIO()):
            atoms.save(p1, atom_format=style)
            text1 = open(p1).read()
            buf = io.StringIO()
            atoms.save(buf, filetype="lmpdat", atom_format=style)
            if buf.getvalue() != text1:
                ev["same_api"] = "no"
            ev["F"] = tokenize(text1, style)
            a2 = Atoms.load(p1, atom_format=style)
            with open(p1) as fh:
                a2b = Atoms.load(fh, filetype="lmpdat", atom_format=style)
            K2 = project(a2, R)
            if project(a2b, R) != K2:
                ev["same_api"] = "no"
            ev["K2"], ev["T2"] = K2, tables(K2)
            b2 = io.StringIO()
            a2.save_lmpdat(b2, atom_format=style)
            a3 = Atoms.load_lmpdat(io.StringIO(b2.getvalue()), atom_format=style)
            b3 = io.StringIO()
            a3.save_lmpdat(b3, atom_format=style)
            if b2.getvalue() != b3.getvalue():
                ev["stable"] = "no"
    except Exception as e:
        ev["exc"] = type(e).__name__
        ev["exc_msg"] = str(e)[:300]
    return ev


def _chunk_hist(task):
    behs, sd = task
    out = []
    R0, R1 = Rendering("identity", 1.0), Rendering("scaled", 1.375)
    cache = {}
    with tempfile.TemporaryDirectory(dir=BUILD) as td:
        for bi, b in behs:
            R = R0 if bi % 2 == 0 else R1
            try:
                steps, obj = atomsops.execute(b, R, 0, random.Random(sd), None, probe=False, want_obj=True)
            except Exception:
                continue
            if not steps or steps[-1]["exc"] != "none" or len(steps) != len(b) or obj is None or len(obj) == 0:
                continue
            out.append((("history", bi), observe(obj, R, "full" if bi % 3 else "atomic", td)))
    return out


def _chunk_cases(task):
    cases, sd = task
    out = []
    with tempfile.TemporaryDirectory(dir=BUILD) as td:
        for ci, c in cases:
            R = Rendering("identity", 1.0) if ci % 2 == 0 else Rendering("scaled", 1.375)
            if c["name"][1] == "fine":
                R = Rendering("micro", 1e-6)
            try:
                with contextlib.redirect_stderr(io.StringIO()):
                    obj = render(c["K"], R)
            except Exception as e:
                ev = blank_event(dict(c["K"], wf="ok"), c["style"], int(R.scale * 1e6))
                ev["exc"] = "constructing-input:" + type(e).__name__
                out.append((("case", ci), ev))
                continue
            out.append((("case", ci), observe(obj, R, c["style"], td)))
    return out


def lmp_cfg(frags, emit):
    return ("SPECIFICATION Spec\nCONSTANTS\n  FragNames = %s\n  Emit = %s\nINVARIANT %s\nCHECK_DEADLOCK FALSE\n"
            % (frags, "TRUE" if emit else "FALSE", "EmitInv" if emit else "ModelInv"))


def collect(tier, sd, out, want_hist=True):
    frags = '{"F2p", "F4p", "F3r", "F3e", "F4b", "F1p"}' if tier == "quick" else atomsops.ALLF.replace('"E", ', '').replace(', "E"', '')
    res = run_tlc("MC_Lmp", lmp_cfg(frags, False), workers=8, timeout=1200, tag="mclmp")
    if res.error:
        raise MachineryError("MC_Lmp failed:\n" + res.error)
    out.model("MC_Lmp", res)
    if res.violated:
        out.violation({"op": "spec", "clause": "model property violated: %s" % res.violated}, {"tlc": res.stdout[-2000:]})
    e = run_tlc("MC_Lmp", lmp_cfg(frags, True), workers=4, timeout=1200, tag="genlmp")
    if e.error:
        raise MachineryError("MC_Lmp emission failed:\n" + e.error)
    cases = [tla_string_to_json(rest) for t, rest in e.printed if t == "CASE"]
    idx = list(enumerate(cases))
    tasks = [(idx[k::14], sd) for k in range(14)]
    with multiprocessing.get_context("fork").Pool(14) as pool:
        results = [r for part in pool.map(_chunk_cases, tasks, chunksize=1) for r in part]
    out.notes["dedicated_cases"] = len(cases)
    behs = []
    if want_hist:
        consts = dict(atomsops.TIERS["quick"]["C11"])
        consts["InitCells"] = '{"none", "tri"}'
        if tier == "thorough":
            consts.update(InitFrags=atomsops.ALLF, ExtFrags='{"F1p", "F2p", "F3p", "F3e", "F3q", "F2b", "F4b", "F2y"}', MaxDel=2)
        behs, _ = atomsops.gen_behaviours(consts, ["Extend", "Delete", "Pop", "ExtendShifted", "Construct"], 3000)
        random.Random(sd).shuffle(behs)
        behs = behs[:2500] if tier == "quick" else behs[:30000]
        bidx = list(enumerate(behs))
        tasks = [(bidx[k::14], sd) for k in range(14)]
        with multiprocessing.get_context("fork").Pool(14) as pool:
            results += [r for part in pool.map(_chunk_hist, tasks, chunksize=1) for r in part]
        out.notes["histories"] = len(behs)
    return cases, behs, results


def writable_check(out, behs, sd, limit, always=()):
    """C09's last sentence: every object a history produces can be written, declared counts match, reads back.
    Called from atomsops for C09 with the behaviours it generated; `always`: histories that are all checked (the long
    random walks, whose objects accumulate ten and more types), the others are sampled up to `limit`."""
    behs = list(behs)
    random.Random(sd).shuffle(behs)
    behs = list(always) + [b for b in behs if b[-1]["op"] not in ("Subset", "Copy", "Replicate")][:limit]
    bidx = list(enumerate(behs))
    tasks = [(bidx[k::14], sd) for k in range(14)]
    with multiprocessing.get_context("fork").Pool(14) as pool:
        results = [r for part in pool.map(_chunk_hist, tasks, chunksize=1) for r in part]
    events, where = {}, {}
    for src, ev in results:
        e = {k: v for k, v in ev.items() if k != "exc_msg"}
        key = json.dumps(e, sort_keys=True)
        if key not in events:
            events[key] = e
            where[key] = (src, ev)
    keys = list(events)
    verdicts = shard_validate("Trace_Lmp", TRACE_CFG, [events[k] for k in keys], shards=14, workers=1, tag="val-writable")
    out.evaluations += len(results)
    out.traces += len(keys)
    by = {}
    for k, vd in zip(keys, verdicts):
        src, ev = where[k]
        if vd == "ok" or vd.startswith("blocked"):
            continue
        by[vd] = by.get(vd, 0) + 1
        out.violation({"op": "SaveLoadLmp", "clause": "writable:" + vd, "flags": [events[k]["style"]], "exc": ev["exc"],
                       "exc_msg": ev.get("exc_msg", "")}, {"behaviour": behs[src[1]], "observed": ev})
    out.notes["writable_objects_checked"] = len(keys)
    out.notes["writable_rejected_by_clause"] = by


def run(prop, tier, replay=None):
    out = Outcome(prop, tier)
    sd = seed()
    out.rule = ("structures = final objects of MC_AtomsAbs histories (sampled in quick) + every state of MC_Lmp; each written "
                "(path and file object), parsed by the harness's tokenizer, read back (path and file object), rewritten twice; "
                "a case = one distinct (structure, style) event")
    if replay:
        rp = json.load(open(replay))["case"]
        with tempfile.TemporaryDirectory(dir=BUILD) as td:
            if rp["source"][0] == "case":
                results = _chunk_cases(([(rp["source"][1], rp["input"])], sd))
            else:
                results = _chunk_hist(([(rp["source"][1], rp["input"])], sd))
        cases, behs = [], []
    else:
        cases, behs, results = collect(tier, sd, out)
    out.evaluations = len(results)
    events, where = {}, {}
    for src, ev in results:
        e = {k: v for k, v in ev.items() if k != "exc_msg"}
        key = json.dumps(e, sort_keys=True)
        if key not in events:
            events[key] = e
            where[key] = (src, ev)
    keys = list(events)
    verdicts = shard_validate("Trace_Lmp", TRACE_CFG, [events[k] for k in keys], shards=14, workers=1, tag="val-" + prop)
    out.traces = len(keys)
    by = {}
    for k, vd in zip(keys, verdicts):
        e = events[k]
        src, ev = where[k]
        if not vd.startswith("blocked"):
            out.case(e)
        if vd == "ok":
            out.sample({"source": list(src), "style": e["style"], "atoms": len(e["K"]["q"]), "sections": e["F"]["sections"],
                        "type_counts": e["F"]["types"]})
            continue
        by[vd] = by.get(vd, 0) + 1
        if vd.startswith("blocked"):
            continue
        inp = None
        if not replay:
            inp = cases[src[1]] if src[0] == "case" else behs[src[1]]
        out.violation({"op": "lmpdat", "clause": vd, "flags": [e["style"]], "exc": ev["exc"], "exc_msg": ev.get("exc_msg", "")},
                      {"source": list(src), "input": inp, "observed": ev})
    out.notes["rejected_by_clause"] = by
    out.assumptions = ["harness/lmpops.py tokenizer (independent of mofun's reader) and katoms.py projection",
                       "numbers are exactly representable at the printed precision (6 decimals)",
                       "coefficient strings have at most one trailing comment"]
    return out.finish()
