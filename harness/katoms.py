"""K-level values <-> real mofun.Atoms objects.

render():  K (all integers; emitted by TLC or built by a driver) -> mofun.Atoms
project(): mofun.Atoms -> K  (mechanical dump of the public arrays; no interpretation:
           resolving type ids, comparing, deciding is done by TLC in spec/AtomsAbs.tla)

A *rendering* R fixes how integers become floats: positions are lattice vectors times
`scale`, then rotated by the proper rotation `Q` (cell rows likewise); charges are id/64,
masses micro-units/1e6.  Projection inverts this and reports a residual problem in the
"wf" field instead of guessing."""
import io
import contextlib
import numpy as np

KINDS = ["bond", "angle", "dihedral", "improper"]
ARITY = {"bond": 2, "angle": 3, "dihedral": 4, "improper": 4}
PLURAL = {"bond": "bonds", "angle": "angles", "dihedral": "dihedrals", "improper": "impropers"}
QUNIT = 64.0
MUNIT = 1e6


class Rendering:
    def __init__(self, name="id", scale=1.0, Q=None):
        self.name = name
        self.scale = float(scale)
        self.Q = np.eye(3) if Q is None else np.array(Q, dtype=float)

    def vec(self, v):           # integer lattice vector(s) -> cartesian
        return self.scale * (np.array(v, dtype=float).reshape(-1, 3) @ self.Q.T)

    def unvec(self, x):         # cartesian -> (integer vectors, max residual)
        y = (np.array(x, dtype=float).reshape(-1, 3) @ self.Q) / self.scale
        r = np.rint(y)
        res = float(np.abs(y - r).max()) if y.size else 0.0
        return r.astype(int), res

    def describe(self):
        return {"name": self.name, "scale": self.scale, "Q": self.Q.tolist()}


def random_rotation(rng):
    """A proper rotation matrix from a numpy Generator."""
    q = rng.normal(size=4)
    q /= np.linalg.norm(q)
    a, b, c, d = q
    return np.array([[a*a+b*b-c*c-d*d, 2*(b*c-a*d), 2*(b*d+a*c)],
                     [2*(b*c+a*d), a*a-b*b+c*c-d*d, 2*(c*d-a*b)],
                     [2*(b*d-a*c), 2*(c*d+a*b), a*a-b*b-c*c+d*d]])


def _quiet():
    return contextlib.redirect_stderr(io.StringIO())


def render(K, R, positions=None):
    """K-level value -> mofun.Atoms (through the public constructor).  positions: use this coordinate array (handed to the
    constructor as it is, e.g. a view of an array another object was built from) instead of rendering K's positions."""
    from mofun import Atoms
    n = len(K["q"])
    kw = dict(
        atom_types=list(K["ty"]),
        positions=positions if positions is not None else (R.vec(K["pos"]) if n else []),
        charges=[q / QUNIT for q in K["q"]],
        groups=list(K["grp"]),
        atom_type_elements=list(K["tel"]),
        atom_type_labels=list(K["tlab"]),
        atom_type_masses=[m / MUNIT for m in K["tmass"]],
        pair_coeffs=list(K["tpc"]),
    )
    if K["xal"]:
        kw["extra_atom_labels"] = list(K["xal"])
        kw["extra_atom_fields"] = [list(r) for r in K["xa"]]
    for k in KINDS:
        T = K[k]
        kw[PLURAL[k]] = [list(t) for t in T["ix"]]
        kw[k + "_types"] = list(T["ty"])
        kw[k + "_type_coeffs"] = list(T["co"])
        if T["xl"]:
            kw["extra_%s_labels" % k] = list(T["xl"])
            kw["extra_%s_fields" % k] = [list(r) for r in T["xf"]]
    if K["cell"]:
        kw["cell"] = R.vec(K["cell"])
    with _quiet():
        if n == 0 and not K["tel"]:
            a = Atoms()
            if K["cell"]:
                a.cell = np.array(kw["cell"])
            return a
        return Atoms(**kw)


def _ints(arr, unit, what, problems, tol=1e-6):
    a = np.array(arr, dtype=float).reshape(-1)
    y = a * unit
    r = np.rint(y)
    if a.size and not np.all(np.isfinite(y)):
        problems.append("%s not finite" % what)
        return [0 for _ in a]
    if a.size and np.abs(y - r).max() > tol * max(1.0, unit):
        problems.append("%s not representable (residual %.3g)" % (what, float(np.abs(y - r).max())))
    return [int(v) for v in r]


def _strs(x):
    return [str(s) for s in list(x)]


def _rows(arr, width_hint=0):
    a = np.array(arr, dtype=object)
    if a.ndim == 2:
        return [[str(v) for v in row] for row in a]
    if a.ndim == 1 and len(a) == 0:
        return []
    # ragged or 1-d: keep what is there, TLC's WFK will reject wrong widths
    return [[str(v) for v in np.atleast_1d(row)] for row in a]


def project(atoms, R, residual_tol=1e-6, cell_tol=None):
    """mofun.Atoms -> K-level value.  Never raises on a malformed object: problems are named in K['wf']."""
    problems = []
    K = {}
    try:
        pos = np.array(atoms.positions, dtype=float)
        if pos.ndim != 2:
            pos = pos.reshape(-1, 3) if pos.size % 3 == 0 else np.zeros((0, 3))
        ip, res = R.unvec(pos) if len(pos) else (np.zeros((0, 3), dtype=int), 0.0)
        if res > residual_tol:
            problems.append("position not on the rendered lattice (residual %.3g)" % res)
        K["pos"] = ip.tolist()
        K["ty"] = _ints(atoms.atom_types, 1, "atom type", problems)
        K["q"] = _ints(atoms.charges, QUNIT, "charge", problems)
        K["grp"] = _ints(atoms.groups, 1, "group", problems)
        K["xal"] = _strs(atoms.extra_atom_labels)
        xa = _rows(atoms.extra_atom_fields)
        if len(xa) == 0 and len(K["q"]) > 0 and len(K["xal"]) == 0 and np.array(atoms.extra_atom_fields).shape[0] == len(K["q"]):
            xa = [[] for _ in K["q"]]
        K["xa"] = xa
        K["tel"] = _strs(atoms.atom_type_elements)
        K["tlab"] = _strs(atoms.atom_type_labels)
        K["tmass"] = _ints(atoms.atom_type_masses, MUNIT, "mass", problems, tol=1e-3)
        K["tpc"] = _strs(atoms.pair_coeffs)
        for k in KINDS:
            ix = np.array(getattr(atoms, PLURAL[k]))
            ty = np.array(getattr(atoms, k + "_types"))
            xf = np.array(getattr(atoms, "extra_%s_fields" % k), dtype=object)
            T = {"ix": [[int(v) for v in row] for row in ix.reshape(-1, ARITY[k])] if ix.size else [],
                 "ty": [int(v) for v in ty.reshape(-1)],
                 "co": _strs(getattr(atoms, k + "_type_coeffs")),
                 "xl": _strs(getattr(atoms, "extra_%s_labels" % k))}
            if xf.ndim == 2:
                T["xf"] = [[str(v) for v in row] for row in xf]
            else:
                T["xf"] = [[str(v) for v in np.atleast_1d(row)] for row in xf]
            K[k] = T
        if atoms.cell is None:
            K["cell"] = []
        else:
            ic, res = R.unvec(np.array(atoms.cell, dtype=float))
            if res > (min(residual_tol, 1e-6) if cell_tol is None else cell_tol):
                problems.append("cell not on the rendered lattice (residual %.3g)" % res)
            K["cell"] = ic.tolist()
    except Exception as e:  # malformed object: report, do not guess
        problems.append("projection failed: %s: %s" % (type(e).__name__, e))
        K = empty_K()
    K["wf"] = "ok" if not problems else "; ".join(problems)
    return K


def empty_K():
    K = {"pos": [], "ty": [], "q": [], "grp": [], "xal": [], "xa": [], "tel": [], "tlab": [], "tmass": [],
         "tpc": [], "cell": [], "wf": "ok"}
    for k in KINDS:
        K[k] = {"ix": [], "ty": [], "co": [], "xl": [], "xf": []}
    return K


class Diverged(Exception):
    """the real object no longer has an atom the model's next operation names: after an operation whose atom order the
    property leaves open (replicate), an index-based operation (pop) removes different atoms in model and code.  Every
    step up to here was judged on its own; the rest of the behaviour is not executed."""


def key_index(atoms, R, key):
    """index of the atom whose (charge code, lattice position) is `key` = [id, [x,y,z]]; by content, not by bookkeeping"""
    ids = np.rint(np.array(atoms.charges) * QUNIT).astype(int)
    ip, _ = R.unvec(atoms.positions)
    hits = [i for i in range(len(ids)) if ids[i] == key[0] and list(ip[i]) == list(key[1])]
    if len(hits) != 1:
        raise Diverged("atom key %r found %d times" % (key, len(hits)))
    return hits[0]
