"""Run TLC and parse what it prints.  Exit-code conventions of the framework:
a TLC crash / timeout / unparsable output is a *machinery failure* (MachineryError -> exit 2),
never a property violation."""
import json
import os
import re
import shutil
import subprocess
import tempfile
import time

VERIF = os.path.dirname(os.path.dirname(os.path.abspath(__file__)))
SPEC = os.path.join(VERIF, "spec")
BUILD = os.path.join(VERIF, "build")
JAR = "/opt/veriftools/tla/tla2tools.jar:/opt/veriftools/tla/CommunityModules-deps.jar"


class MachineryError(Exception):
    pass


def _workdir(prefix):
    os.makedirs(BUILD, exist_ok=True)
    return tempfile.mkdtemp(prefix=prefix + "-", dir=BUILD)


class TlcResult:
    def __init__(self):
        self.stdout = ""
        self.generated = 0
        self.distinct = 0
        self.depth = 0
        self.violated = []      # names of violated invariants / properties
        self.error = None       # other TLC errors (evaluation errors, deadlock, ...)
        self.printed = []       # python values of PrintT(<<"TAG", ...>>) lines, as (tag, rest-text)
        self.wall = 0.0
        self.coverage = {}      # action name -> (distinct, generated)
        self.cmd = ""


_STATS = re.compile(r"(\d+) states generated, (\d+) distinct states found")
_DEPTH = re.compile(r"The depth of the complete state graph search is (\d+)")
_INV = re.compile(r"Invariant (\S+) is violated")
_PROP = re.compile(r"(?:Action|Temporal) property (\S+)? ?(?:line .*)?is violated|Temporal properties were violated")
_PRINTED = re.compile(r'<<\s*"(\w+)",\s*(?:(-?\d+),\s*)?"((?:[^"\\]|\\.)*)"\s*>>', re.S)
_COV = re.compile(r"^<(\w+) line \d+, col \d+ to line \d+, col \d+ of module (\w+)>: (\d+):(\d+)")


def run_tlc(module, cfg_text, workers=16, timeout=1800, env=None, simulate=None, depth=None,
            coverage=False, extra_modules_dir=None, keep=False, tag="tlc", seed=None, heap="8g", gcthreads=None):
    """module: file name in /verif/spec (without .tla).  cfg_text: contents of the config."""
    wd = _workdir(tag)
    res = TlcResult()
    try:
        # TLC resolves EXTENDS relative to the directory of the root module: copy specs (small) there
        for f in os.listdir(SPEC):
            if f.endswith(".tla"):
                shutil.copy(os.path.join(SPEC, f), wd)
        if extra_modules_dir:
            for f in os.listdir(extra_modules_dir):
                if f.endswith(".tla"):
                    shutil.copy(os.path.join(extra_modules_dir, f), wd)
        cfg = os.path.join(wd, module + ".cfg")
        with open(cfg, "w") as fh:
            fh.write(cfg_text)
        # (TLC unpacks its standard modules into java.io.tmpdir and leaves them there: keep that inside the run's directory)
        os.makedirs(os.path.join(wd, "jtmp"), exist_ok=True)
        cmd = ["java", "-Djava.io.tmpdir=" + os.path.join(wd, "jtmp"), "-Xss64m", "-XX:+UseParallelGC", "-XX:ParallelGCThreads=%d" % (gcthreads or max(2, min(8, workers))), "-Xmx" + heap, "-cp", JAR, "tlc2.TLC",
               "-workers", str(workers), "-metadir", os.path.join(wd, "states"), "-noGenerateSpecTE",
               "-config", cfg]
        if coverage:
            cmd += ["-coverage", "1"]
        if simulate:
            cmd += ["-simulate", simulate]
        if depth:
            cmd += ["-depth", str(depth)]
        if seed is not None:
            cmd += ["-seed", str(seed)]
        cmd += [os.path.join(wd, module + ".tla")]
        res.cmd = " ".join(cmd)
        e = dict(os.environ)
        if env:
            e.update(env)
        t0 = time.time()
        try:
            p = subprocess.run(cmd, cwd=wd, env=e, stdout=subprocess.PIPE, stderr=subprocess.STDOUT,
                               timeout=timeout, text=True, errors="replace")
        except subprocess.TimeoutExpired:
            subprocess.run(["pkill", "-f", wd], check=False)
            raise MachineryError("TLC timed out after %ds: %s" % (timeout, module))
        res.wall = time.time() - t0
        out = p.stdout
        res.stdout = out
        for m in _STATS.finditer(out):
            res.generated, res.distinct = int(m.group(1)), int(m.group(2))
        m = _DEPTH.search(out)
        if m:
            res.depth = int(m.group(1))
        res.violated = _INV.findall(out)
        for m in re.finditer(r"Action property (\S+) is violated|property (\S+) is violated", out):
            res.violated.append(m.group(1) or m.group(2))
        if "Temporal properties were violated" in out:
            res.violated.append("temporal")
        # PrintT output: <<"TAG", "string">> or <<"TAG", int, "string">>; TLC's pretty printer may wrap a long tuple over
        # several lines, so match across line breaks on the whole output
        for m in _PRINTED.finditer(out):
            if m.group(2) is not None:
                res.printed.append((m.group(1), '%s, "%s"' % (m.group(2), m.group(3))))
            else:
                res.printed.append((m.group(1), '"%s"' % m.group(3)))
        for line in out.splitlines():
            mc = _COV.match(line)
            if mc:
                res.coverage[mc.group(1)] = (int(mc.group(3)), int(mc.group(4)))
        if "Error:" in out and not res.violated:
            # evaluation errors, parse errors, deadlocks, assumption failures
            idx = out.index("Error:")
            res.error = out[idx: idx + 1500]
        if p.returncode not in (0, 12, 13) and not res.violated and not res.error:
            res.error = "TLC exit code %d\n%s" % (p.returncode, out[-1500:])
        return res
    finally:
        if not keep:
            shutil.rmtree(wd, ignore_errors=True)


def tla_string_to_json(text):
    """A TLA+ string literal printed by TLC ("...") whose content is JSON -> python value."""
    return json.loads(json.loads(text))


def require_ok(res, what):
    if res.error:
        raise MachineryError("%s: TLC error\n%s" % (what, res.error))
    return res
