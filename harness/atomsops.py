"""C09-C12: histories of Atoms operations.

model-check MC_AtomsAbs  ->  TLC emits one behaviour per distinct reachable state
-> each behaviour is rendered and executed on the real mofun.Atoms (several renderings,
   several listing orders of deleted indices) -> every observed transition is judged by TLC
   with Trace_AtomsAbs (abstraction of observed post-state = spec operation on abstraction of
   observed pre-state)."""
import copy
import hashlib
import io
import contextlib
import json
import multiprocessing
import os
import random

import numpy as np

from . import katoms
from .katoms import Rendering, render, project, key_index, empty_K
from .tlcrun import run_tlc, tla_string_to_json, MachineryError
from .common import Outcome, shard_validate, seed

OP_PROP = {"Delete": "C10", "Pop": "C10", "Extend": "C11", "ExtendTypes": "C11", "ExtendShifted": "C11",
           "Replicate": "C12", "Construct": "C09", "Subset": "C09", "Copy": "C09"}
PROP_OPS = {"C10": ["Delete", "Pop"], "C11": ["Extend", "ExtendTypes", "ExtendShifted"], "C12": ["Replicate"],
            "C09": sorted(OP_PROP)}

ALLF = '{"F1p", "F2p", "F3p", "F4p", "F3r", "F3e", "F3q", "F3a", "F2b", "F4b", "F3x", "F2y", "F2z", "E"}'
TIERS = {
    "quick": {
        "C09": dict(InitFrags='{"F2p", "F4p", "F4b", "F3x", "E"}', ExtFrags='{"F1p", "F3p", "F2b"}',
                    InitCells='{"none", "tri"}', MaxAtoms=8, MaxDepth=2, MaxMap=1, MaxDel=2, Dims="DimsQuick"),
        "C10": dict(InitFrags='{"F2p", "F4p", "F3r", "F3a", "F4b", "F3x"}', ExtFrags='{"F1p", "F3p", "F2y"}',
                    InitCells='{"none"}', MaxAtoms=8, MaxDepth=2, MaxMap=1, MaxDel=3, Dims="DimsQuick"),
        "C11": dict(InitFrags='{"F2p", "F4p", "F3r", "F3a", "F4b", "F3x", "E"}', ExtFrags='{"F1p", "F3p", "F3q", "F2b", "F2y", "F2z"}',
                    InitCells='{"none"}', MaxAtoms=8, MaxDepth=2, MaxMap=1, MaxDel=2, Dims="DimsQuick"),
        "C12": dict(InitFrags='{"F2p", "F4p", "F3r", "F3a", "F4b", "F3x"}', ExtFrags='{"F1p", "F2y"}',
                    InitCells='{"ortho", "tri", "trineg"}', MaxAtoms=12, MaxDepth=2, MaxMap=1, MaxDel=1, Dims="DimsMid"),
    },
    # exhaustive to depth 2 with every fragment as initial structure; depth 3-4, two-atom identity maps and all
    # extension fragments are reached by simulation (see deep_behaviours) and by the random walks
    "thorough": {
        "C09": dict(InitFrags=ALLF, ExtFrags='{"F1p", "F3p", "F3e", "F3q", "F2b", "F4b", "F2y"}', InitCells='{"none", "ortho", "tri", "trineg"}',
                    MaxAtoms=10, MaxDepth=2, MaxMap=1, MaxDel=2, Dims="DimsMid"),
        "C10": dict(InitFrags=ALLF, ExtFrags='{"F1p", "F3p", "F3q", "F4b", "F2y"}', InitCells='{"none", "tri"}',
                    MaxAtoms=9, MaxDepth=2, MaxMap=1, MaxDel=4, Dims="DimsQuick"),
        "C11": dict(InitFrags='{"F2p", "F4p", "F3r", "F3e", "F4b", "F3x", "E"}', ExtFrags='{"F1p", "F3p", "F3e", "F3q", "F2b", "F2y", "F2z"}',
                    InitCells='{"none"}', MaxAtoms=8, MaxDepth=2, MaxMap=2, MaxDel=1, Dims="DimsQuick"),
        "C12": dict(InitFrags=ALLF, ExtFrags='{"F1p", "F3a", "F3e", "F2y"}', InitCells='{"ortho", "tri", "trineg"}',
                    MaxAtoms=16, MaxDepth=2, MaxMap=1, MaxDel=1, Dims="DimsThorough"),
    },
    "deep": dict(InitFrags=ALLF, ExtFrags=ALLF, InitCells='{"none", "ortho", "tri", "trineg"}', MaxAtoms=14, MaxDepth=4, MaxMap=2, MaxDel=3,
                 Dims="DimsThorough"),
}


def cfg_text(c, emit, emit_ops, check_props):
    lines = ["SPECIFICATION Spec", "CONSTANTS"]
    for k in ("InitFrags", "ExtFrags", "InitCells", "MaxAtoms", "MaxDepth", "MaxMap", "MaxDel"):
        lines.append("  %s = %s" % (k, c[k]))
    lines.append("  Dims <- %s" % c["Dims"])
    lines.append("  Emit = %s" % ("TRUE" if emit else "FALSE"))
    lines.append("  EmitOps = {%s}" % ", ".join('"%s"' % o for o in emit_ops))
    lines.append("VIEW view")
    if check_props:
        lines += ["INVARIANT InvConsistent", "PROPERTY DeleteExact", "PROPERTY ExtendExact", "PROPERTY ReplicateExact"]
    if emit:
        lines.append("INVARIANT EmitInv")
    lines.append("CHECK_DEADLOCK FALSE")
    return "\n".join(lines) + "\n"


TRACE_CFG = "SPECIFICATION Spec\nINVARIANT Report\nCHECK_DEADLOCK FALSE\n"


def renderings(rng_seed, n=3):
    rng = np.random.default_rng(1000 + rng_seed)
    rs = [Rendering("identity", 1.0), Rendering("scaled", 1.375)]
    for i in range(max(0, n - 2)):
        rs.append(Rendering("rotated%d" % i, 1.25, katoms.random_rotation(rng)))
    return rs[:n]


def _blank_step():
    return {"op": "", "mode": "auto", "offs": [0, 0, 0, 0, 0], "map": [], "keys": [], "i": 0, "dims": [1, 1, 1],
            "ixs": [], "v": [0, 0, 0], "other": empty_K(), "pre": empty_K(), "post": empty_K(), "exc": "none",
            "wf": "ok", "src_same": "yes"}


def _vals(m):
    return list(m.values()) if isinstance(m, dict) else list(m)


def order_variants(ixs, rnd):
    """listing orders for a set of indices to delete"""
    asc = sorted(ixs)
    out = [asc]
    if len(asc) > 1:
        out.append(asc[::-1])
        out.append(asc[1:] + asc[:1])
        sh = asc[:]
        rnd.shuffle(sh)
        out.append(sh)
    uniq = []
    for o in out:
        if o not in uniq:
            uniq.append(o)
    return uniq


def _sigs(beh):
    out, h = [], ""
    for st in beh:
        h = hashlib.sha1((h + json.dumps(st, sort_keys=True)).encode()).hexdigest()
        out.append(h)
    return out


def execute(beh, R, variant=0, rnd=None, cache=None, probe=True, want_obj=False):
    """Run one behaviour on the real code.  Returns the list of observed transitions.
    cache: dict shared between behaviours; a behaviour whose prefix was already executed (same rendering,
    canonical variant) continues from a deep copy of the object that prefix produced."""
    rnd = rnd or random.Random(0)
    atoms = None
    held = {}
    steps = []
    nsteps = len(beh)
    start = 0
    maps_in_use = {}      # a caller that extends repeatedly with the same identity map passes the same dict object again
    sigs = _sigs(beh) if cache is not None else None
    if cache is not None:
        for n in range(nsteps - 1, 0, -1):
            hit = cache.get((R.name, sigs[n - 1]))
            if hit is not None:
                a0, h0, st0 = hit
                if a0 is None:          # the prefix ended in an exception: nothing new to observe
                    return list(st0)
                atoms, held, steps, start = copy.deepcopy(a0), dict(h0), list(st0), n
                if "__last_other__" in held:
                    held["__last_other__"] = copy.deepcopy(held["__last_other__"])
                break
    for n, st in enumerate(beh):
        if n < start:
            continue
        rec = _blank_step()
        rec["op"] = op = st["op"]
        pre = steps[-1]["post"] if steps else empty_K()
        rec["pre"] = pre
        other = None
        src = None
        try:
            with contextlib.redirect_stderr(io.StringIO()), contextlib.redirect_stdout(io.StringIO()):
                if op == "Construct":
                    rec["other"] = st["other"]
                    atoms = render(st["other"], R)
                elif op == "Extend":
                    rec["other"] = st["other"]
                    rec["mode"] = st["mode"]
                    rec["map"] = [[v[0], v[1]] for v in _vals(st["map"])]
                    other = render(st["other"], R)
                    if st.get("reuse") and held.get("__last_other__") is not None:
                        # the fragment object of the previous extension is used again: moved, grown by this step's fragment
                        # (public operations), and handed over once more; what is judged is the object as it is now
                        other0 = held["__last_other__"]
                        other0.translate(R.vec(st["reuse"])[0])
                        other0.extend(other)
                        other = other0
                        rec["other"] = {k: v for k, v in project(other, R).items()}
                    held["__last_other__"] = other
                    src = project(other, R)
                    sim = {int(j): key_index(atoms, R, key) for j, key in rec["map"]}
                    if R.name not in ("identity", "tests"):
                        sim = {np.int64(j): np.int64(i) for j, i in sim.items()}     # indices often come out of numpy
                    mkey = json.dumps(sorted([int(j), int(i)] for j, i in sim.items()))
                    if mkey in maps_in_use:
                        sim = maps_in_use[mkey]           # the same object as in the earlier call (whatever became of it)
                    elif sim:
                        maps_in_use[mkey] = sim
                    if st["mode"] == "held":
                        offs = held[st["frag"]]
                        rec["offs"] = [int(x) for x in offs]
                        atoms.extend(other, offsets=offs, structure_index_map=sim)
                    else:
                        atoms.extend(other, structure_index_map=sim)
                elif op == "ExtendTypes":
                    rec["other"] = st["other"]
                    other = render(st["other"], R)
                    src = project(other, R)
                    held[st["frag"]] = atoms.extend_types(other)
                elif op == "ExtendShifted":
                    rec["v"] = list(st["v"])
                    other = atoms.copy()
                    other.translate(R.vec(st["v"])[0])
                    src = project(other, R)
                    atoms.extend(other, offsets=(0, 0, 0, 0, 0))
                elif op == "Delete":
                    keys = _vals(st["keys"])
                    rec["keys"] = [[k[0], list(k[1])] for k in keys]
                    ixs = [key_index(atoms, R, k) for k in rec["keys"]]
                    orders = order_variants(ixs, rnd)
                    order = orders[variant % len(orders)] if n == nsteps - 1 else orders[0]
                    rec["listing"] = order
                    # the container the indices come in is the caller's choice as well
                    cont = variant % 4
                    del atoms[list(order) if cont == 0 else np.array(order, dtype=np.int64) if cont == 1 else tuple(order) if cont == 2
                              else [np.int32(i) for i in order]]
                elif op == "Pop":
                    rec["i"] = st["i"]
                    if st["i"] == -1 and variant % 2 == 0:
                        atoms.pop()
                    else:
                        atoms.pop(st["i"])
                elif op == "Replicate":
                    rec["dims"] = list(st["dims"])
                    other = atoms
                    src = pre
                    atoms = atoms.replicate(tuple(st["dims"]) if R.name == "identity" else (list(st["dims"]) if R.name == "scaled" else np.array(st["dims"])))
                elif op == "Subset":
                    rec["ixs"] = list(st["ixs"])
                    other = atoms
                    src = pre
                    atoms = atoms[list(st["ixs"])] if len(st["ixs"]) > 1 else atoms[st["ixs"][0]]
                elif op == "Copy":
                    other = atoms
                    src = pre
                    atoms = atoms.copy()
                else:
                    raise MachineryError("unknown op %r" % op)
        except MachineryError:
            raise
        except katoms.Diverged:
            break
        except Exception as e:
            rec["exc"] = type(e).__name__
            rec["exc_msg"] = str(e)[:200]
            rec["post"] = pre
            steps.append(rec)
            if cache is not None and variant == 0:
                cache[(R.name, sigs[n])] = (None, None, list(steps))
            break
        rec["post"] = project(atoms, R)
        rec["wf"] = rec["post"]["wf"]
        if other is not None and src is not None:
            after = project(other, R)
            if after != src:
                rec["src_same"] = "no"
            elif op in ("Replicate", "Copy") and other is atoms:
                # the "result" is the source object itself: every later edit of the result edits the source
                rec["src_same"] = "no"
            elif probe and n == nsteps - 1 and op in ("Replicate", "Subset", "Copy") and other is not atoms:
                # independence probe: the result is a separate object; mutating it must not reach the source
                try:
                    with contextlib.redirect_stderr(io.StringIO()), contextlib.redirect_stdout(io.StringIO()):
                        _scribble(atoms, R, tables=(op == "Copy"))
                except Exception:
                    pass
                if project(other, R) != src:
                    rec["src_same"] = "no"
                steps.append(rec)
                return steps          # the result was scribbled on: not cached
        steps.append(rec)
        if cache is not None and variant == 0 and n < nsteps - 1 or (cache is not None and variant == 0 and op not in ("Replicate", "Subset", "Copy")):
            cache[(R.name, sigs[n])] = (copy.deepcopy(atoms), {k: (copy.deepcopy(x) if k == "__last_other__" else x) for k, x in held.items()}, list(steps))
    if want_obj:
        return steps, atoms
    return steps


def _scribble(a, R, tables=False):
    """edits of `a` (an object that is thrown away afterwards) that must not reach the object it was made from:
    public operations that work in place (translate, extend with an identity map), element writes to the
    per-atom and per-term arrays; with tables=True (deep copies) also the type tables."""
    from mofun import Atoms
    if len(a) > 0:
        a.translate(R.vec([1, 2, 3])[0])
        one = Atoms(atom_types=[0], positions=[a.positions[0]], atom_type_elements=["He"], atom_type_labels=["probe"],
                    atom_type_masses=[4.0], pair_coeffs=["probe"] if len(a.pair_coeffs) else [])
        try:
            a.extend(one, structure_index_map={0: 0})
        except Exception:
            pass
        a.charges[0] += 1.0
        a.groups[0] += 1
        a.atom_types[0] = a.atom_types[-1]
        a.positions[-1][0] += 1.0
    if a.cell is not None:
        a.cell[0][0] += 1.0
    for name in ("bonds", "angles", "dihedrals", "impropers"):
        t = getattr(a, name)
        if len(t) > 0:
            t[0][0] = t[0][-1]
    for name in ("bond_types", "angle_types", "dihedral_types", "improper_types"):
        t = getattr(a, name)
        if len(t) > 0:
            t[0] += 1
    for name in ("extra_atom_fields", "extra_bond_fields"):
        t = getattr(a, name)
        if getattr(t, "size", 0) > 0:
            t[0][0] = "zz"
    if not tables:
        return
    for name in ("atom_type_labels", "atom_type_elements", "pair_coeffs", "bond_type_coeffs", "angle_type_coeffs",
                 "dihedral_type_coeffs", "improper_type_coeffs"):
        t = getattr(a, name)
        if len(t) > 0:
            t[0] = "Xx"
    if len(a.atom_type_masses) > 0:
        a.atom_type_masses[0] = 1.0
    for name in ("extra_atom_labels", "extra_bond_labels"):
        getattr(a, name).add("_scribble")


def _exec_group(task):
    group, sd = task
    cache, trans, where, paths = {}, {}, {}, []
    for ci, (b, R, v) in enumerate(group):
        steps = execute(b, R, v, random.Random(sd), cache)
        path = []
        for n, rec in enumerate(steps):
            s = _strip(rec)
            key = hashlib.sha1(json.dumps(s, sort_keys=True).encode()).hexdigest()      # identifies the distinct transition
            path.append(key)
            if key not in trans:
                trans[key] = s
                # (only a reference to the behaviour: the parent process has the groups; copies of whole behaviours per
                # transition cost gigabytes in the thorough tier)
                where[key] = (ci, n, {"exc_msg": rec.get("exc_msg", ""), "listing": rec.get("listing")})
        paths.append(path)
    return trans, where, paths, len(group)


def _strip(rec):
    """the part of an observed transition that TLC judges (drop free text)"""
    r = {k: v for k, v in rec.items() if k not in ("exc_msg", "listing")}
    return r


def flags_of(rec):
    """facts about the *inputs* of a transition, used only to key known findings"""
    f = []
    pre, oth = rec["pre"], rec["other"]
    if pre["q"] and not pre["tpc"] and oth["tpc"]:
        f.append("pre-has-atoms-no-pair-table+other-has-pair-table")
    if pre["q"] and pre["tpc"] and oth["q"] and not oth["tpc"]:
        f.append("pre-has-pair-table+other-has-atoms-no-pair-table")
    if not pre["q"] and pre["tel"]:
        f.append("pre-has-no-atoms-but-type-tables")
    for k in katoms.KINDS:
        if not pre[k]["ix"] and pre[k]["co"]:
            f.append("pre-%s-kind-empty-with-coeff-table" % k)
        if pre[k]["ix"] and k == "improper":
            f.append("pre-has-impropers")
    return f


def instance_table(maxk):
    cfg = ("SPECIFICATION Spec\nCONSTANTS\n  FragNames = %s\n  MaxK = %d\nINVARIANT EmitInv\nCHECK_DEADLOCK FALSE\n" % (ALLF, maxk))
    res = run_tlc("DumpInst", cfg, workers=4, timeout=600, tag="dumpinst")
    if res.error:
        raise MachineryError("DumpInst failed:\n" + res.error)
    inst, cells = {}, {}
    for t, rest in res.printed:
        v = tla_string_to_json(rest)
        if t == "BIG":
            inst[("BIGSPARSE", 0)] = {"f": "BIGSPARSE", "k": 0, "flav": "p", "K": v["K"]}
        elif t == "CHAIN":
            inst[("BIGCHAIN", v["n"])] = {"f": "BIGCHAIN", "k": v["n"], "flav": "p", "K": v["K0"], "K1": v["K1"]}
        elif t == "INST":
            inst[(v["f"], v["k"])] = v
        elif t == "CELL":
            cells[v["name"]] = v["cell"]
    return inst, cells


def random_walks(nwalks, depth, maxatoms, sd):
    """Long random histories on larger structures (C09 "random longer sequences"): not chosen by TLC, but built from
    the specification's own fragment instances; every transition is judged by the same trace specification."""
    inst, cells = instance_table(depth + 1)
    big = inst.pop(("BIGSPARSE", 0), None)
    chains = {k[1]: inst.pop(k) for k in [k for k in inst if k[0] == "BIGCHAIN"]}
    frags = sorted(set(f for f, _ in inst))
    R = Rendering("identity", 1.0)
    walks = []
    # larger structures (hash-table and numpy code paths change with size): a chain of n atoms extended by a second chain
    # with many atoms declared identical, and deletions of most atoms
    for n, c in sorted(chains.items()):
        K0, K1 = c["K"], c["K1"]
        key0 = lambda i: [K0["q"][i], K0["pos"][i]]
        rc = random.Random(sd + n)
        maps = [[0, 3, 7], list(range(0, n, 2)), [i for i in range(n) if i not in (6, 9)], list(range(n // 2)),
                sorted(rc.sample(range(n), max(3, n // 3))), sorted(rc.sample(range(n), (2 * n) // 3))]
        for M in maps:
            walks.append([{"op": "Construct", "k": 0, "frag": "BIGCHAIN", "other": K0},
                          {"op": "Extend", "k": 1, "frag": "BIGCHAIN", "mode": "auto", "map": [[j, key0(j)] for j in M], "other": K1}])
        dels = [[i for i in range(n) if i not in (7, 9, n - 2, n - 1)], list(range(0, n - 4)) , sorted(rc.sample(range(n), (3 * n) // 4)),
                sorted(rc.sample(range(n), n - 3)), list(range(1, n, 2)) + [0]]
        for S in dels:
            walks.append([{"op": "Construct", "k": 0, "frag": "BIGCHAIN", "other": K0}, {"op": "Delete", "keys": [key0(i) for i in S]}])
    if big is not None:
        # deletions of many, widely spread atoms from a large sparsely bonded structure
        K = big["K"]
        n = len(K["q"])
        key = lambda i: [K["q"][i], K["pos"][i]]
        rb = random.Random(sd + 5)
        sets = [list(range(20, 150, 10)), list(range(5, 160, 9)), sorted(rb.sample(range(3, n), 16)), [1] + list(range(30, 160, 8)),
                sorted(rb.sample(range(n), 25))]
        for S in sets:
            walks.append([{"op": "Construct", "k": 0, "frag": "BIGSPARSE", "other": K}, {"op": "Delete", "keys": [key(i) for i in S]}])
    # one fixed history whose object ends up with twelve atom / bond / angle types (two-digit type ids in a written file)
    if ("F3r", 3) in inst:
        walks.append([{"op": "Construct", "k": 0, "frag": "F3r", "other": inst[("F3r", 0)]["K"]}] +
                     [{"op": "Extend", "k": k, "frag": "F3r", "mode": "auto", "map": [], "other": inst[("F3r", k)]["K"]} for k in (1, 2, 3)])
    # repeated extension with the same fragment and the same identity map (the caller passes the same dict again; see
    # maps_in_use in execute), with held offsets and with automatic type merging
    rr = random.Random(sd + 11)
    pairs = [(a, b) for a in frags for b in frags if a != "E" and b != "E" and len(inst[(b, 0)]["K"]["q"]) >= 2
             and (inst[(a, 0)]["flav"] == inst[(b, 0)]["flav"] or "n" in (inst[(a, 0)]["flav"], inst[(b, 0)]["flav"]))]
    for a, b in rr.sample(pairs, min(len(pairs), 12)):
        if (b, 2) not in inst:
            continue
        K0 = inst[(a, 0)]["K"]
        j = rr.randrange(len(inst[(b, 0)]["K"]["q"]))
        mp = [[j, [K0["q"][0], K0["pos"][0]]]]
        first = [{"op": "Construct", "k": 0, "frag": a, "other": K0}]
        walks.append(first + [{"op": "Extend", "k": k, "frag": b, "mode": "auto", "map": mp, "other": inst[(b, k)]["K"]} for k in (1, 2)])
        walks.append(first + [{"op": "ExtendTypes", "k": 1, "frag": b, "other": inst[(b, 1)]["K"]}] +
                     [{"op": "Extend", "k": k, "frag": b, "mode": "held", "map": mp, "other": inst[(b, k)]["K"]} for k in (1, 2)])
    for w in range(nwalks):
        rnd = random.Random(sd * 7919 + w)
        f0 = rnd.choice([f for f in frags if f != "E"])
        flav = inst[(f0, 0)]["flav"]
        cname = rnd.choice(["none", "ortho", "tri", "trineg"])
        beh = [{"op": "Construct", "k": 0, "frag": f0, "other": dict(inst[(f0, 0)]["K"], cell=cells[cname])}]
        cache = {}
        held = {}
        while len(beh) <= depth:
            steps = execute(beh, R, 0, random.Random(0), cache, probe=False)
            if steps[-1]["exc"] != "none" or steps[-1]["post"]["wf"] != "ok":
                break
            K = steps[-1]["post"]
            n = len(K["q"])
            keys = [[K["q"][i], K["pos"][i]] for i in range(n)]
            k = len(beh)
            ops = ["Extend", "Extend", "ExtendTypes"]
            if n >= 2:
                ops += ["Delete", "Delete", "Pop"]
            if n >= 1:
                ops += ["Copy"]
            if cname != "none" and 0 < n <= maxatoms // 2:
                ops += ["Replicate"]
            if 0 < n <= maxatoms // 2:
                ops += ["ExtendShifted"]
            op = rnd.choice(ops)
            if op in ("Extend", "ExtendTypes"):
                cands = [f for f in frags if inst[(f, 0)]["flav"] in ("n", flav) or flav == "n"]
                f = rnd.choice(cands)
                F = inst[(f, k)]["K"]
                if op == "ExtendTypes":
                    if f == "E" or f in held:
                        continue
                    held[f] = k
                    beh.append({"op": "ExtendTypes", "k": k, "frag": f, "other": F})
                else:
                    if n + len(F["q"]) > maxatoms:
                        continue
                    m = rnd.choice([0, 0, 1, 2]) if n else 0
                    js = rnd.sample(range(len(F["q"])), min(m, len(F["q"])))
                    tg = rnd.sample(keys, len(js)) if len(js) <= n else []
                    mp = [[j, t] for j, t in zip(js, tg)]
                    mode = "held" if f in held and rnd.random() < 0.5 else "auto"
                    step = {"op": "Extend", "k": k, "frag": f, "mode": mode, "map": mp, "other": F}
                    if any(b["op"] == "Extend" for b in beh) and n <= maxatoms // 3 and rnd.random() < 0.35:
                        step.update(mode="auto", map=[], reuse=[0, 0, 30 + 11 * k])
                    beh.append(step)
                if flav == "n":
                    flav = inst[(f, 0)]["flav"]
            elif op == "Delete":
                S = rnd.sample(keys, rnd.randint(1, min(4, n - 1)))
                beh.append({"op": "Delete", "keys": S})
            elif op == "Pop":
                beh.append({"op": "Pop", "i": rnd.choice([-1, 0, -2, n - 1])})
            elif op == "Copy":
                beh.append({"op": "Copy"})
            elif op == "Replicate":
                beh.append({"op": "Replicate", "dims": rnd.choice([[2, 1, 1], [1, 2, 1], [1, 1, 2], [1, 1, 1]])})
            elif op == "ExtendShifted":
                v = rnd.choice([[0, 0, 50], [40, 0, 0], [0, 60, 0]])
                v = [x + 7 * k for x in v]
                beh.append({"op": "ExtendShifted", "v": v})
        walks.append(beh)
    return walks


def impl_cfg(rule, order, tier):
    big = tier == "thorough"
    return ("SPECIFICATION Spec\nCONSTANTS\n  OffsetRule = \"%s\"\n  DeleteOrder = \"%s\"\n  InitFrags = %s\n  ExtFrags = %s\n"
            "  MaxAtoms = %d\n  MaxDepth = %d\n  MaxMap = %d\n  MaxDel = %d\nINVARIANT Refines\nINVARIANT WellFormed\nCHECK_DEADLOCK FALSE\n"
            % (rule, order, '{"F2p", "F4p", "F3r", "F4b", "F3a", "E"}' if big else '{"F2p", "F4p", "F3r", "F4b"}',
               '{"F1p", "F2p", "F3p", "F3q", "F2b", "F4b"}' if big else '{"F1p", "F3p", "F3q", "F2b"}',
               9 if big else 8, 3 if big else 2, 1, 2))


def design_level(out, prop, tier):
    """AtomsImpl (the array algorithms) refines AtomsAbs; the two design variants that must be refuted are refuted."""
    res = run_tlc("MC_AtomsImpl", impl_cfg("table_length", "descending", tier), workers=16, timeout=3000, tag="impl")
    if res.error:
        raise MachineryError("MC_AtomsImpl failed:\n" + res.error)
    out.model("MC_AtomsImpl(refinement, %s)" % tier, res)
    if res.violated:
        out.violation({"op": "spec", "clause": "design level does not refine the property level: %s" % res.violated},
                      {"tlc_output_tail": res.stdout[-3000:]})
    controls = []
    if prop in ("C09", "C11"):
        controls.append(("types_in_use", "descending"))
    if prop in ("C09", "C10"):
        controls.append(("table_length", "ascending"))
    for rule, order in controls:
        r = run_tlc("MC_AtomsImpl", impl_cfg(rule, order, "quick"), workers=8, timeout=1200, tag="implneg")
        if r.error:
            raise MachineryError("MC_AtomsImpl negative control failed to run:\n" + r.error)
        if "Refines" not in r.violated:
            raise MachineryError("negative control (%s, %s) not refuted: the refinement check is vacuous" % (rule, order))
        out.notes.setdefault("negative_controls", []).append("OffsetRule=%s DeleteOrder=%s refuted as expected" % (rule, order))


def deep_behaviours(ops, sd, num, sample):
    """deeper histories by TLC -simulate on the same specification (emission happens on every generated successor)"""
    res = run_tlc("MC_AtomsAbs", cfg_text(dict(TIERS["deep"]), True, sorted(OP_PROP), False), workers=8, timeout=3000, tag="deep",
                  simulate="num=%d" % num, depth=4, seed=sd + 3)
    if res.error:
        raise MachineryError("deep behaviour generation failed:\n" + res.error)
    lines = sorted(set(rest for t, rest in res.printed if t == "BEHAVIOUR"))
    random.Random(sd).shuffle(lines)
    out = []
    for rest in lines:
        b = tla_string_to_json(rest)
        if b[-1]["op"] in ops and len(b) >= 3:
            out.append(b)
            if len(out) >= sample:
                break
    return out


def gen_behaviours(consts, emit_ops, timeout):
    res = run_tlc("MC_AtomsAbs", cfg_text(consts, True, emit_ops, False), workers=1, timeout=timeout, tag="gen")
    if res.error:
        raise MachineryError("generation failed:\n" + res.error)
    behs = [tla_string_to_json(rest) for tagname, rest in res.printed if tagname == "BEHAVIOUR"]
    return behs, res


def record_test_suite(calls=False):
    """(calls=True: record the search / replacement calls instead and return them.)  Run the repository's own tests on a scratch copy of /repo's working tree with harness/testrecorder.py loaded;
    return (recorded transitions, statistics).  The scratch copy lives outside /repo and /verif and is removed."""
    import shutil
    import subprocess
    import sys
    import tempfile
    here = os.path.dirname(os.path.dirname(os.path.abspath(__file__)))
    import mofun
    repo = os.path.dirname(os.path.dirname(os.path.abspath(mofun.__file__)))     # the tree the harness itself runs against
    tmp = tempfile.mkdtemp(prefix="mofun-rec-")
    try:
        dst = os.path.join(tmp, "repo")
        shutil.copytree(repo, dst, ignore=shutil.ignore_patterns(".git", "docs", "perf", "__pycache__", "*.egg-info", ".pytest_cache"))
        rec = os.path.join(tmp, "events.json")
        env = dict(os.environ, PYTHONPATH=dst + os.pathsep + here, PYTHONDONTWRITEBYTECODE="1")
        env["MOFUN_VERIF_RECORD_CALLS" if calls else "MOFUN_VERIF_RECORD"] = rec
        p = subprocess.run([sys.executable, "-m", "pytest", "-q", "-p", "no:cacheprovider", "-p", "harness.testrecorder", "tests"],
                           cwd=dst, env=env, stdout=subprocess.PIPE, stderr=subprocess.STDOUT, text=True, timeout=1500)
        if not os.path.exists(rec):
            raise MachineryError("recording the repository's tests produced nothing (pytest rc=%s):\n%s" % (p.returncode, p.stdout[-2000:]))
        with open(rec) as fh:
            d = json.load(fh)
        if calls:
            return d["calls"], {"pytest_rc": p.returncode, "pytest_summary": p.stdout.strip().splitlines()[-1][:200] if p.stdout.strip() else ""}
        d["stats"]["pytest_rc"] = p.returncode
        d["stats"]["pytest_summary"] = p.stdout.strip().splitlines()[-1][:200] if p.stdout.strip() else ""
        return d["events"], d["stats"]
    finally:
        shutil.rmtree(tmp, ignore_errors=True)


def recorded_tests(out, prop, ops, only_test=None):
    """Trace validation of what the repository's own tests execute: every outermost Atoms operation they perform is
    one observed transition, judged by Trace_AtomsAbs like any other; verdicts `blocked:` (inputs outside the
    property's domain: unrepresentable numbers, inconsistent fixtures, expected exceptions) never alarm."""
    events, stats = record_test_suite()
    uniq, tests = {}, {}
    for e in events:
        if only_test is not None and e.get("test") != only_test:
            continue
        item = {k: v for k, v in e.items() if k != "test"}
        key = json.dumps(item, sort_keys=True)
        uniq.setdefault(key, item)
        tests.setdefault(key, e.get("test", ""))
    keys = list(uniq)
    verdicts = shard_validate("Trace_AtomsAbs", TRACE_CFG, [uniq[k] for k in keys], shards=4, workers=1, tag="rec-" + prop) if keys else []
    tally = {}
    for k, v in zip(keys, verdicts):
        item = uniq[k]
        tally["%s/%s" % (item["op"], v)] = tally.get("%s/%s" % (item["op"], v), 0) + 1
        if item["op"] not in ops:
            continue
        if v == "ok":
            out.case(item)
        elif not v.startswith("blocked"):
            out.case(item)
            out.violation({"op": "recorded:" + item["op"], "clause": v, "flags": flags_of(item), "exc": item["exc"], "exc_msg": ""},
                          {"recorded_test": tests[k], "observed": item})
    out.evaluations += len(events)
    out.traces += len(keys)
    out.notes["recorded_from_repo_tests"] = dict(stats, distinct=len(keys), verdicts=dict(sorted(tally.items())))


def run(prop, tier, replay=None):
    out = Outcome(prop, tier)
    consts = dict(TIERS[tier][prop])
    sd = seed()
    rnd = random.Random(sd)
    ops = PROP_OPS[prop]
    out.rule = ("behaviours = one per distinct state of MC_AtomsAbs whose last operation is in %s; each executed on "
                "mofun.Atoms under %d renderings x listing-order variants; a case is a distinct observed transition "
                "(pre-state, operation, arguments, post-state); non-trivial = the operation is one of the property's "
                "operations (setup steps are judged too but not counted)" % (ops, 3))
    if replay:
        with open(replay) as fh:
            rp = json.load(fh)
        if "recorded_test" in rp["case"]:
            recorded_tests(out, prop, ops, only_test=rp["case"]["recorded_test"])
            return out.finish()
        cases = [(rp["case"]["behaviour"], Rendering(**rp["case"]["rendering"]), rp["case"]["variant"])]
    else:
        # 1. model-check the specification (all workers)
        res = run_tlc("MC_AtomsAbs", cfg_text(consts, False, [], True), workers=16, timeout=3000, coverage=True, tag="mc")
        if res.error:
            raise MachineryError("model checking failed:\n" + res.error)
        out.model("MC_AtomsAbs(%s)" % tier, res)
        if res.violated:
            out.violation({"op": "spec", "clause": "spec-level property violated: %s" % res.violated},
                          {"tlc_output_tail": res.stdout[-3000:]})
        if prop in ("C09", "C10", "C11"):
            design_level(out, prop, tier)
        # 2. generate behaviours
        behs, gres = gen_behaviours(consts, ops, 3000)
        out.notes["behaviours"] = len(behs)
        if not behs:
            raise MachineryError("no behaviour generated (vacuous)")
        deep = deep_behaviours(ops, sd, 6 if tier == "quick" else 60, 600 if tier == "quick" else 10000)
        out.notes["deep_behaviours"] = len(deep)
        behs = behs + deep
        rs = renderings(sd, 3)
        # length units are arbitrary: replication must not depend on the magnitude of the numbers (powers of two keep the
        # rendering exact)
        extreme = [Rendering("tiny", 2.0 ** -30), Rendering("huge", 2.0 ** 20)]
        cases = []
        for bi, b in enumerate(behs):
            nvar = 4 if b[-1]["op"] == "Delete" and len(_vals(b[-1]["keys"])) > 1 else (2 if b[-1]["op"] == "Pop" else 1)
            for ri, R in enumerate(rs + (extreme if prop == "C12" and bi % 3 == 0 else [])):
                for v in range(nvar):
                    if ri > 0 and v > 0 and (ri + v) % 2 == 0:
                        continue
                    cases.append((b, R, v))
        out.exhaustive = True
        walks = []
        if prop in ("C09", "C10", "C11"):
            walks = random_walks((40 if tier == "quick" else 600) if prop == "C09" else 0, 14 if tier == "quick" else 24, 40, sd)
            out.notes["random_walks"] = len(walks)
            out.notes["random_walk_steps"] = sum(len(w) for w in walks)
            for w in walks:
                big_delete = len(w) == 2 and w[-1]["op"] == "Delete" and len(w[-1]["keys"]) > 4
                cases += [(w, Rendering("identity", 1.0), v) for v in range(4 if big_delete else 1)]
    # 3. execute (in parallel: one task per rendering x initial structure, so prefixes are shared inside a task)
    trans, where, paths = {}, {}, []
    groups = {}
    for c in cases:
        groups.setdefault((c[1].name, json.dumps(c[0][0], sort_keys=True)), []).append(c)
    tasks = [(g, sd) for g in groups.values()]
    if len(cases) < 200:
        results = [_exec_group(t) for t in tasks]
    else:
        with multiprocessing.get_context("fork").Pool(min(14, len(tasks))) as pool:
            results = pool.map(_exec_group, tasks, chunksize=1)
    for gi, (tr, wh, pa, nexec) in enumerate(results):
        out.evaluations += nexec
        for k, v in tr.items():
            if k not in trans:
                trans[k] = v
                where[k] = (gi,) + tuple(wh[k])
        paths.extend(pa)
    items = list(trans.values())
    keys = list(trans.keys())
    # 4. validate every distinct observed transition with TLC
    verdicts = dict(zip(keys, shard_validate("Trace_AtomsAbs", TRACE_CFG, items, shards=14, workers=1, tag="val-" + prop)))
    out.traces = len(items)
    # a behaviour stops counting at its first rejected transition: later transitions start from a state
    # the specification does not have
    live_bad = set()
    live_ok = set()
    for path in paths:
        for key in path:
            if verdicts[key] != "ok":
                live_bad.add(key)
                break
            live_ok.add(key)
    by_clause = {}
    for key in keys:
        item = trans[key]
        gi, ci, n, extra = where[key]
        b, R, var = tasks[gi][0][ci]
        rec = dict(item, **extra)
        mine = item["op"] in ops
        v = verdicts[key]
        if key in live_ok and mine:
            out.case(item)
            out.sample({"behaviour": [{k: x for k, x in st.items() if k != "other"} for st in b[: n + 1]],
                        "rendering": R.name, "verdict": v})
        if key in live_bad and key not in live_ok:
            by_clause[(item["op"], v)] = by_clause.get((item["op"], v), 0) + 1
            if v.startswith("blocked"):
                raise MachineryError("first rejected transition has a malformed pre-state: %s" % v)
            if mine:
                out.case(item)
                sig = {"op": item["op"], "clause": v, "flags": flags_of(item), "exc": rec.get("exc"),
                       "exc_msg": rec.get("exc_msg", "")}
                out.violation(sig, {"behaviour": b[: n + 1], "rendering": R.describe(), "variant": var, "step": n,
                                    "observed": rec})
    if not replay:
        recorded_tests(out, prop, ops)
    if prop == "C09" and not replay:
        from . import lmpops
        lmpops.writable_check(out, behs, sd, 1200 if tier == "quick" else 20000,
                              always=[w for w in walks if len(w) > 2 and w[-1]["op"] not in ("Subset", "Copy", "Replicate")])
    out.notes["rejected_by_op_and_clause"] = {"%s/%s" % k: n for k, n in sorted(by_clause.items())}
    out.assumptions = ["projection/rendering code in harness/katoms.py (mechanical array dump, integer decoding)",
                       "TLC explores the bounded instance given in the evidence 'models' entry",
                       "coefficient tables compatible as stated in C11/C06 (both sides parameterised or both bare)"]
    return out.finish()
