"""C15: P1 CIF files.  MC_Cif (TLC) enumerates round-trip structures and reader-only documents; the harness renders
them, lets mofun write / read, parses written text with its own small CIF tokenizer (not PyCifRW-through-mofun) and
uses ASE as the independent reader for cell and positions; TLC (Trace_Cif) judges."""
import contextlib
import io
import json
import multiprocessing
import os
import re
import shlex
import tempfile

import numpy as np

from .katoms import Rendering, render, project, empty_K, KINDS
from .lmpops import micro
from .tlcrun import run_tlc, tla_string_to_json, MachineryError, BUILD
from .common import Outcome, shard_validate, seed

TRACE_CFG = "SPECIFICATION Spec\nINVARIANT Report\nCHECK_DEADLOCK FALSE\n"


def cell_matrix(cellpar):
    from ase.geometry import cellpar_to_cell
    return np.array(cellpar_to_cell([x / 1e4 for x in cellpar]), dtype=float)


def cif_tokens(text):
    toks = []
    for line in text.split("\n"):
        s = line.strip()
        if not s or s.startswith("#"):
            continue
        lex = shlex.shlex(s, posix=True)
        lex.whitespace_split = True
        lex.commenters = ""
        toks += list(lex)
    return toks


def parse_cif(text):
    """-> (items: tag -> value, loops: list of (tags, rows))"""
    toks = cif_tokens(text)
    items, loops = {}, []
    i = 0
    while i < len(toks):
        t = toks[i]
        if t.startswith("data_"):
            i += 1
        elif t == "loop_":
            i += 1
            tags = []
            while i < len(toks) and toks[i].startswith("_"):
                tags.append(toks[i])
                i += 1
            vals = []
            while i < len(toks) and not toks[i].startswith("_") and toks[i] != "loop_" and not toks[i].startswith("data_"):
                vals.append(toks[i])
                i += 1
            w = len(tags)
            loops.append((tags, [vals[r * w:(r + 1) * w] for r in range(len(vals) // w)]))
        elif t.startswith("_"):
            items[t] = toks[i + 1]
            i += 2
        else:
            raise ValueError("unexpected CIF token %r" % t)
    return items, loops


def dec4(tok):
    """decimal token -> integer in units of 1e-4 (rounded: cell lengths are printed with full float precision)"""
    return int(round(float(re.sub(r"\(\d+\)", "", tok)) * 1e4))


def abstract_file(text, charge_scale=1):
    items, loops = parse_cif(text)
    F = {"spacegroup": items.get("_symmetry_space_group_name_H-M", "absent"),
         "cellpar": [dec4(items[k]) for k in ("_cell_length_a", "_cell_length_b", "_cell_length_c", "_cell_angle_alpha",
                                               "_cell_angle_beta", "_cell_angle_gamma")] if "_cell_length_a" in items else [],
         "atom_labels": [], "atom_symbols": [], "coordkind": "none", "coords": [], "charges": [], "atom_extra_labels": [],
         "atom_extra": [], "bonds": [], "bond_extra_labels": [], "bond_extra": [], "angles": [], "torsions": []}
    for tags, rows in loops:
        col = {t: [r[n] for r in rows] for n, t in enumerate(tags)}
        if "_atom_site_label" in tags:
            F["atom_labels"] = col["_atom_site_label"]
            F["atom_symbols"] = col.get("_atom_site_type_symbol", [])
            if "_atom_site_fract_x" in tags:
                F["coordkind"] = "fract"
                keys = ["_atom_site_fract_x", "_atom_site_fract_y", "_atom_site_fract_z"]
            else:
                F["coordkind"] = "cartn"
                keys = [k for k in tags if k.lower() in ("_atom_site_cartn_x", "_atom_site_cartn_y", "_atom_site_cartn_z")]
            F["coords"] = [[micro(col[k][r]) // 100 if micro(col[k][r]) % 100 == 0 else 10 ** 9 for k in keys] for r in range(len(rows))]
            if charge_scale == 1:
                F["charges"] = [micro(x) for x in col.get("_atom_site_charge", [])]
            else:               # charges written scaled by an exact power of two: scaled back exactly (rational arithmetic)
                from fractions import Fraction
                # (the writer prints the shortest decimal that reads back as the same binary number: the token is read as
                # that binary number, exactly)
                vals = [Fraction(float(x)) * charge_scale * 10 ** 6 for x in col.get("_atom_site_charge", [])]
                F["charges"] = [int(v) if v.denominator == 1 else 2 ** 30 for v in vals]     # 2^30: not the charge written
            handled = set(keys) | {"_atom_site_label", "_atom_site_type_symbol", "_atom_site_charge"}
            F["atom_extra_labels"] = [t for t in tags if t not in handled]
            F["atom_extra"] = [col[t] for t in F["atom_extra_labels"]]
        elif "_geom_bond_atom_site_label_1" in tags:
            F["bonds"] = [[a, b] for a, b in zip(col["_geom_bond_atom_site_label_1"], col["_geom_bond_atom_site_label_2"])]
            F["bond_extra_labels"] = [t for t in tags if not t.startswith("_geom_bond_atom_site_label_")]
            F["bond_extra"] = [col[t] for t in F["bond_extra_labels"]]
        elif "_geom_angle_atom_site_label_1" in tags:
            F["angles"] = [list(x) for x in zip(*[col["_geom_angle_atom_site_label_%d" % n] for n in (1, 2, 3)])]
        elif "_geom_torsion_atom_site_label_1" in tags:
            F["torsions"] = [list(x) for x in zip(*[col["_geom_torsion_atom_site_label_%d" % n] for n in (1, 2, 3, 4)])]
    return F


def frac_project(a, cell, K):
    """positions of `a` as integer numerators of 1/80 fractional coordinates (or complaint in K['wf'])"""
    f = np.array(a.positions, dtype=float).reshape(-1, 3) @ np.linalg.inv(cell) * 80.0
    r = np.rint(f)
    K["pos"] = r.astype(int).tolist()
    bad = [p for p in K["wf"].split("; ") if p and p != "ok" and not p.startswith("position") and not p.startswith("cell")]
    if f.size and np.abs(f - r).max() > 2e-2:          # 4 printed decimals = 0.008 of a unit
        bad.append("position is not a multiple of 1/80 of the cell vectors (residual %.3g)" % float(np.abs(f - r).max()))
    K["wf"] = "ok" if not bad else "; ".join(bad)
    K["cell"] = []
    return K


def cellpar_of(a):
    from ase.cell import Cell
    if a.cell is None:
        return []
    return [int(round(x * 1e4)) for x in Cell(np.array(a.cell, dtype=float)).cellpar()]


def ase_agrees(path, a):
    import ase.io
    try:
        with contextlib.redirect_stderr(io.StringIO()), contextlib.redirect_stdout(io.StringIO()):
            b = ase.io.read(path, format="cif")
    except Exception as e:
        return "ase failed: %s" % type(e).__name__
    if not np.allclose(np.array(b.cell), np.array(a.cell), atol=1e-6):
        return "cell differs"
    if list(b.get_chemical_symbols()) != [str(e) for e in a.elements]:
        return "elements differ"
    inv = np.linalg.inv(np.array(a.cell, dtype=float))
    d = (np.array(b.positions) - np.array(a.positions)) @ inv
    if np.abs(d - np.rint(d)).max() > 1e-6:
        return "positions differ modulo the lattice"
    return "yes"


def do_roundtrip(c, td, intcell=False, rot=None, tiny=False):
    """rot: the whole crystal (cell vectors and atoms) turned by this exact cube rotation before it is written: the same
    crystal, a box-shaped cell stays exactly orthogonal but is no longer diagonal.  tiny: all charges scaled by 2^-16
    (exact) so that the writer prints them in exponent notation; scaled back after reading.
    intcell: the cell is handed over as an integer array (what the constructor stores for `cell=[[8,0,0],...]`);
    only for orthorhombic cells with whole-number lengths"""
    from mofun import Atoms
    K = c["K"]
    cell = cell_matrix(c["cellpar"])
    ev = {"kind": "roundtrip", "K": dict(K, wf="ok"), "cellpar": c["cellpar"], "out": c["out"], "exc": "none",
          "F": abstract_file("data_x\n"), "K2": empty_K(), "cellpar2": [], "stable": "yes", "ase": "yes"}
    path = os.path.join(td, "s.cif")
    try:
        with contextlib.redirect_stderr(io.StringIO()), contextlib.redirect_stdout(io.StringIO()):
            a = render(dict(K, cell=[]), Rendering("id", 1.0))
            a.cell = np.array(np.rint(cell), dtype=int) if intcell else cell
            a.positions = (np.array(K["pos"], dtype=float) / 80.0) @ cell
            if rot is not None:
                a.cell = np.array(a.cell, dtype=float) @ rot.T
                a.positions = np.array(a.positions) @ rot.T
            if tiny:
                a.charges = np.array(a.charges, dtype=float) * 2.0 ** -16
            if c["out"] == "cart":
                with open(path, "w") as fh:
                    a.save_p1_cif(fh, use_fract_coords=False)
            else:
                a.save(path)
            text1 = open(path).read()
            ev["F"] = abstract_file(text1, 2 ** 16 if tiny else 1)
            a2 = Atoms.load(path)
            if tiny:
                a2 = a2.copy()
                a2.charges = np.array(a2.charges, dtype=float) * 2.0 ** 16
            K2 = project(a2, Rendering("id", 1.0), residual_tol=1e9)
            ev["K2"] = frac_project(a2, cell, K2)
            ev["cellpar2"] = cellpar_of(a2)
            if c["out"] == "fract":
                ev["ase"] = ase_agrees(path, a2)
            b2 = io.StringIO()
            a2.save_p1_cif(b2, use_fract_coords=(c["out"] == "fract"))
            p3 = os.path.join(td, "t.cif")
            open(p3, "w").write(b2.getvalue())
            a3 = Atoms.load(p3)
            b3 = io.StringIO()
            a3.save_p1_cif(b3, use_fract_coords=(c["out"] == "fract"))
            if b2.getvalue() != b3.getvalue():
                ev["stable"] = "no"
    except Exception as e:
        ev["exc"] = type(e).__name__
        ev["exc_msg"] = str(e)[:300]
    return ev


def doc_text(D, cellpar):
    L = ["data_doc"]
    if D["sg"] != "absent":
        L.append("_symmetry_space_group_name_H-M '%s'" % D["sg"])
    for k, v in zip(("_cell_length_a", "_cell_length_b", "_cell_length_c", "_cell_angle_alpha", "_cell_angle_beta", "_cell_angle_gamma"), cellpar):
        L.append("%s %.4f" % (k, v / 1e4))
    kind = "cartn" if D["cart"] == "yes" else "fract"
    L += ["loop_", "_atom_site_label", "_atom_site_type_symbol"] + ["_atom_site_%s_%s" % (kind, ax) for ax in "xyz"]
    for a in D["atoms"]:
        L.append("%s %s %s %s %s" % (a["label"], a["el"], a["t"][0], a["t"][1], a["t"][2]))
    if D["bonds"]:
        L += ["loop_", "_geom_bond_atom_site_label_1", "_geom_bond_atom_site_label_2"]
        L += ["%s %s" % (b[0], b[1]) for b in D["bonds"]]
    return "\n".join(L) + "\n"


def do_read(c, td):
    from mofun import Atoms
    D = c["D"]
    cellpar = [80000, 100000, 160000, 900000, 900000, 900000] if D["cart"] == "yes" else [90000, 100000, 120000, 800000, 1000000, 750000]
    cell = cell_matrix(cellpar)
    text = doc_text(D, cellpar)
    path = os.path.join(td, "d.cif")
    open(path, "w").write(text)
    R = {"exc": "none", "wf": "ok", "els": [], "pos": [], "bonds": [], "ase": "yes"}
    ev = {"kind": "read", "D": {k: v for k, v in D.items()}, "R": R}
    try:
        with contextlib.redirect_stderr(io.StringIO()), contextlib.redirect_stdout(io.StringIO()):
            a = Atoms.load(path)
            with open(path) as fh:
                b = Atoms.load(fh, filetype="cif")
        R["els"] = [str(e) for e in a.elements]
        if D["cart"] == "yes":
            y = np.array(a.positions, dtype=float) * 1e4
            r = np.rint(y)
            if np.abs(y - r).max() > 1e-3:
                R["wf"] = "cartesian coordinate not as written"
            R["pos"] = r.astype(int).tolist()
        else:
            f = np.array(a.positions, dtype=float) @ np.linalg.inv(cell) * 80.0
            r = np.rint(f)
            if np.abs(f - r).max() > 1e-3:
                R["wf"] = "fractional coordinate not as written (residual %.3g)" % float(np.abs(f - r).max())
            if (f < -1e-6).any() or (f > 80 - 1e-6).any():          # wrapped means 0 <= fraction < 1
                R["wf"] = "fractional coordinate outside the cell"
            R["pos"] = r.astype(int).tolist()
        R["bonds"] = [[int(x) for x in t] for t in np.array(a.bonds).reshape(-1, 2)] if len(a.bonds) else []
        if not np.array_equal(np.array(a.positions), np.array(b.positions)) or [str(e) for e in b.elements] != R["els"]:
            R["wf"] = "path and file object differ"
        if D["sg"] in ("absent", "P1", "P 1"):
            R["ase"] = ase_agrees(path, a)
    except Exception as e:
        R["exc"] = type(e).__name__
        R["exc_msg"] = str(e)[:200]
    return ev


def _chunk(task):
    cases = task
    out = []
    with tempfile.TemporaryDirectory(dir=BUILD) as td:
        for ci, c in cases:
            out.append((ci, do_roundtrip(c, td) if c["kind"] == "roundtrip" else do_read(c, td)))
            if c["kind"] == "roundtrip" and c["cellpar"][3:] == [900000] * 3 and all(x % 10000 == 0 for x in c["cellpar"][:3]):
                out.append((ci, do_roundtrip(c, td, intcell=True)))
            if c["kind"] == "roundtrip" and c["out"] == "fract":
                from .findops import ROT24
                out.append((ci, do_roundtrip(c, td, rot=ROT24[1 + (ci * 7) % 23], tiny=(ci % 2 == 0))))
    return out


def cfg(frags, emit):
    return ("SPECIFICATION Spec\nCONSTANTS\n  FragNames = %s\n  Emit = %s\nINVARIANT %s\nCHECK_DEADLOCK FALSE\n"
            % (frags, "TRUE" if emit else "FALSE", "EmitInv" if emit else "ModelInv"))


def run(prop, tier, replay=None):
    out = Outcome(prop, tier)
    frags = '{"F2p", "F4p", "F3e", "F3x", "F2y", "F3a", "F1p"}' if tier == "quick" else '{"F1p", "F2p", "F3p", "F4p", "F3r", "F3e", "F3q", "F3a", "F2b", "F4b", "F3x", "F2y"}'
    out.rule = ("cases = every state of MC_Cif: round trips (fragment x 3 cells x inside/outside/boundary x fractional/Cartesian) and "
                "reader-only documents (10 space-group spellings x fractional/Cartesian x 9 coordinate-token offsets x 0..2 bonds); non-trivial = all")
    if replay:
        cases = [json.load(open(replay))["case"]["case"]]
    else:
        res = run_tlc("MC_Cif", cfg(frags, False), workers=8, timeout=1200, tag="mccif")
        if res.error:
            raise MachineryError("MC_Cif failed:\n" + res.error)
        out.model("MC_Cif", res)
        e = run_tlc("MC_Cif", cfg(frags, True), workers=4, timeout=1200, tag="gencif")
        if e.error:
            raise MachineryError("MC_Cif emission failed:\n" + e.error)
        cases = [tla_string_to_json(rest) for t, rest in e.printed if t == "CASE"]
        out.exhaustive = True
    idx = list(enumerate(cases))
    tasks = [idx[k::14] for k in range(14)]
    with multiprocessing.get_context("fork").Pool(14) as pool:
        results = [r for part in pool.map(_chunk, tasks, chunksize=1) for r in part]
    out.evaluations = len(results)

    def strip(ev):
        e = {k: v for k, v in ev.items() if k != "exc_msg"}
        if "R" in e:
            e["R"] = {k: v for k, v in e["R"].items() if k != "exc_msg"}
        return e
    items = [strip(ev) for _, ev in results]
    verdicts = shard_validate("Trace_Cif", TRACE_CFG, items, shards=8, workers=1, tag="val-C15")
    out.traces = len(items)
    by = {}
    for (ci, ev), vd in zip(results, verdicts):
        out.case(cases[ci])
        if vd == "ok":
            out.sample({"kind": ev["kind"], "case": {k: v for k, v in cases[ci].items() if k not in ("K",)} if ev["kind"] == "read" else
                        {"cell": cases[ci]["cell"], "out": cases[ci]["out"], "atoms": len(cases[ci]["K"]["q"])}})
            continue
        by[vd] = by.get(vd, 0) + 1
        msg = ev.get("exc_msg") or ev.get("R", {}).get("exc_msg", "")
        out.violation({"op": ev["kind"], "clause": vd, "flags": [], "exc": ev.get("exc", ev.get("R", {}).get("exc")), "exc_msg": msg},
                      {"case": cases[ci], "observed": ev})
    out.notes["rejected_by_clause"] = by
    out.assumptions = ["harness/cifops.py: CIF tokenizer for written text, document renderer, fractional projection (numpy)",
                       "ASE's CIF reader as the independent reader for cell and positions",
                       "installed PyCifRW 5.0.1; coordinates are multiples of 1/80 of the cell vectors (exact at 4 decimals)"]
    return out.finish()
