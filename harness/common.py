import contextlib
"""Shared plumbing: seeds, evidence files, known findings, verdict lines, sharded trace validation."""
import concurrent.futures
import hashlib
import json
import os
import sys
import time

from .tlcrun import run_tlc, MachineryError, VERIF, BUILD

EVIDENCE = os.path.join(VERIF, "evidence")
REPLAYS = os.path.join(VERIF, "replays")
KNOWN = os.path.join(VERIF, "known_findings.json")


@contextlib.contextmanager
def time_limit(sec):
    """a call of the library that runs longer than `sec` seconds is ended with TimeoutError (recorded like any other
    exception of the call).  Normal calls take milliseconds (lattice crystals) to seconds (the real MOF files); the limits
    are two orders of magnitude above that, so that only a change that makes the library hang or crawl is hit."""
    import signal
    import threading
    if threading.current_thread() is not threading.main_thread():
        yield
        return

    def handler(signum, frame):
        raise TimeoutError("library call exceeded %d s" % sec)
    old = signal.signal(signal.SIGALRM, handler)
    signal.alarm(int(sec))
    try:
        yield
    finally:
        signal.alarm(0)
        signal.signal(signal.SIGALRM, old)


def seed():
    try:
        return int(os.environ.get("VERIF_SEED", "0"))
    except ValueError:
        return 0


def load_known():
    if not os.path.exists(KNOWN):
        return []
    with open(KNOWN) as fh:
        return json.load(fh)["findings"]


def match_known(prop, sig):
    """sig: dict describing a rejected step (op, clause, flags...).  An entry with status 'finding' matches when
    every key of its 'match' dict equals sig's value (lists: entry's set must be a subset of sig's list)."""
    for e in load_known():
        if e.get("status") != "finding" or prop not in e["properties"]:
            continue
        ok = True
        for k, v in e["match"].items():
            sv = sig.get(k)
            if isinstance(v, list):
                if not isinstance(sv, list) or not set(v) <= set(sv):
                    ok = False
            elif sv != v:
                ok = False
        if ok:
            return e
    return None


class Outcome:
    """Collects what a check run saw; writes evidence; decides the exit code."""

    def __init__(self, prop, tier, level="model_checking"):
        self.prop = prop
        self.tier = tier
        self.level = level
        self.t0 = time.time()
        self.states = 0
        self.transitions = 0
        self.traces = 0             # observed behaviours / transitions validated by TLC against the spec
        self.evaluations = 0        # executions of the real code
        self.distinct = set()       # hashes of distinct non-trivial cases
        self.samples = []
        self.violations = []        # (signature dict, replay path)
        self.known = {}             # finding id -> count
        self.notes = {}
        self.models = []            # per TLC model run: name, states, distinct, wall, coverage
        self.assumptions = []
        self.exhaustive = False
        self.rule = ""

    def model(self, name, res):
        self.models.append({"name": name, "generated": res.generated, "distinct": res.distinct,
                            "depth": res.depth, "wall_s": round(res.wall, 2),
                            "coverage": {k: list(v) for k, v in res.coverage.items()}})
        self.states += res.distinct
        self.transitions += res.generated

    def case(self, obj):
        h = hashlib.sha1(json.dumps(obj, sort_keys=True).encode()).hexdigest()
        self.distinct.add(h)

    def sample(self, obj, limit=3):
        if len(self.samples) < limit:
            self.samples.append(obj)

    def violation(self, sig, replay_obj):
        known = match_known(self.prop, sig)
        if known:
            self.known[known["id"]] = self.known.get(known["id"], 0) + 1
            return False
        os.makedirs(REPLAYS, exist_ok=True)
        h = hashlib.sha1(json.dumps(replay_obj, sort_keys=True, default=str).encode()).hexdigest()[:12]
        path = os.path.join(REPLAYS, "%s-%s.json" % (self.prop, h))
        if len(self.violations) < 20:
            with open(path, "w") as fh:
                json.dump({"property": self.prop, "signature": sig, "case": replay_obj}, fh, indent=1, default=str)
        self.violations.append((sig, path))
        return True

    def finish(self):
        wall = time.time() - self.t0
        os.makedirs(EVIDENCE, exist_ok=True)
        cov = {
            "states": self.states, "transitions": self.transitions,
            "traces_validated_against_impl": self.traces,
            "evaluations": self.evaluations, "distinct_nontrivial": len(self.distinct),
            "rule": self.rule, "samples": self.samples or ["(no case executed)"],
            "exhaustive": self.exhaustive, "models": self.models,
            "known_findings_hit": self.known, "notes": self.notes,
        }
        ev = {"property_id": self.prop, "tier": self.tier, "seed": seed(), "level": self.level,
              "coverage": cov, "assumptions": self.assumptions, "wall_s": round(wall, 2),
              "violations": len(self.violations)}
        with open(os.path.join(EVIDENCE, self.prop + (".replay" if os.environ.get("VERIF_REPLAY") else "") + ".json"), "w") as fh:
            json.dump(ev, fh, indent=1, default=str)
        known = {e["id"]: e for e in load_known()}
        for fid, n in sorted(self.known.items()):
            print("KNOWN-FINDING: property=%s %s [%s, seen %d times]" % (self.prop, known[fid]["what"], fid, n))
        seen = set()
        for sig, path in self.violations:
            key = json.dumps({k: sig.get(k) for k in ("op", "clause", "flags")}, sort_keys=True)
            if key in seen:
                continue
            seen.add(key)
            print("VIOLATION property=%s replay=%s  # %s" % (self.prop, path, json.dumps(sig, default=str)[:400]))
        print("%s %s: states=%d transitions=%d code-executions=%d validated=%d distinct=%d violations=%d known=%d wall=%.1fs" % (
            self.prop, self.tier, self.states, self.transitions, self.evaluations, self.traces,
            len(self.distinct), len(self.violations), sum(self.known.values()), wall))
        return 1 if self.violations else 0


def shard_validate(module, cfg_text, items, shards=14, workers=1, timeout=1800, tag="val", heap="2g", extra=None):
    """Validate a list of observed transitions with the trace spec `module`.
    Returns list of verdict strings aligned with items ('ok' or the failing clause).
    Every item must receive a verdict: TLC must report len(shard)+1 distinct states."""
    if not items:
        return []
    shards = max(1, min(shards, (len(items) + 99) // 100))
    os.makedirs(BUILD, exist_ok=True)
    chunks = [items[s::shards] for s in range(shards)]
    idx = [list(range(len(items)))[s::shards] for s in range(shards)]
    verdicts = ["?"] * len(items)

    def work(s):
        path = os.path.join(BUILD, "%s-%d-%d.json" % (tag, os.getpid(), s))
        with open(path, "w") as fh:
            json.dump(chunks[s], fh)
        try:
            res = run_tlc(module, cfg_text, workers=workers, timeout=timeout, env={"TRACE_FILE": path}, tag=tag, heap=heap, gcthreads=1, extra_modules_dir=extra)   # many small serial-GC JVMs: measured 4x faster here than parallel GC / big heaps
        finally:
            os.unlink(path)
        if res.error:
            raise MachineryError("trace validation (%s) failed:\n%s" % (module, res.error))
        if res.distinct != len(chunks[s]) + 1:
            raise MachineryError("trace validation (%s): %d states for %d items\n%s" % (
                module, res.distinct, len(chunks[s]), res.stdout[-1500:]))
        out = ["ok"] * len(chunks[s])
        nrej = sum(1 for tagname, _ in res.printed if tagname == "REJECT")
        if nrej != res.stdout.count('"REJECT"'):
            raise MachineryError("trace validation (%s): %d REJECT markers in TLC's output but %d parsed" % (
                module, res.stdout.count('"REJECT"'), nrej))
        for tagname, rest in res.printed:
            if tagname == "REJECT":
                n, clause = rest.split(",", 1)
                out[int(n) - 1] = json.loads(clause.strip())
        return s, out, res

    tot = None
    with concurrent.futures.ThreadPoolExecutor(max_workers=shards) as ex:
        for s, out, res in ex.map(work, range(shards)):
            for j, v in zip(idx[s], out):
                verdicts[j] = v
    return verdicts
