"""C17: bond detection.  MC_Bond (TLC) enumerates crystals (element-pair boundary cases, grid scans in sheared cells,
multi-atom crystals shifted and wrapped) and checks the 27-image design against the minimum-image definition; the
harness runs mofun.detect_bonds on each crystal (also with atoms reordered) and TLC (Trace_Bond) judges the result."""
import contextlib
import io
import json
import multiprocessing
import random

import numpy as np

from . import gen
from .tlcrun import run_tlc, tla_string_to_json, MachineryError
from .common import Outcome, shard_validate, seed

TRACE_CFG = "SPECIFICATION Spec\nINVARIANT Report\nCHECK_DEADLOCK FALSE\n"
QUICK_ELEMS = ["H", "C", "O", "Si", "Cl", "Li", "Zn", "Zr", "Cs", "Fr", "I", "Fe"]


def cfg(elems, step, emit):
    return ("SPECIFICATION Spec\nCONSTANTS\n  PairElems = {%s}\n  ScanStep = %d\n  Emit = %s\nINVARIANT %s\nCHECK_DEADLOCK FALSE\n"
            % (", ".join('"%s"' % e for e in elems), step, "TRUE" if emit else "FALSE", "EmitInv" if emit else "DesignInv"))


def observe(x, perm_seed, intcell=False):
    """intcell: a cell of whole Angstroms is handed over as an integer array (what the constructor stores for
    `cell=[[6,0,0],[0,7,0],[0,0,9]]`); positions stay floating point"""
    from mofun import Atoms
    from mofun.detect_bonds import detect_bonds
    n = len(x["atoms"])
    perm = list(range(n))
    if perm_seed is not None:
        random.Random(perm_seed).shuffle(perm)
    atoms = [x["atoms"][i] for i in perm]
    ev = {"cell": x["cell"], "atoms": atoms, "obs": [], "exc": "none", "kind": x.get("kind", "")}
    unit = 1e6 if x.get("kind") == "near" else 100.0       # position units per Angstrom
    try:
        with contextlib.redirect_stderr(io.StringIO()):
            els = [t["el"] for t in atoms]
            uniq = list(dict.fromkeys(els))
            # explicit type tables: the radius table has entries (D) that the mass table lacks, and masses play no role here
            a = Atoms(atom_types=[uniq.index(e) for e in els], atom_type_elements=uniq, atom_type_masses=[1.0] * len(uniq),
                      atom_type_labels=uniq, positions=np.array([t["pos"] for t in atoms], dtype=float) / unit,
                      cell=((np.array(np.rint(np.array(x["cell"], dtype=float) / unit), dtype=int) if intcell
                             else np.array(x["cell"], dtype=float) / unit) if x["cell"] else None))
            b = detect_bonds(a)
        ev["obs"] = [[int(i), int(j)] for i, j in np.array(b).reshape(-1, 2)]
    except Exception as e:
        ev["exc"] = type(e).__name__
        ev["exc_msg"] = str(e)[:200]
    return ev


def _chunk(task):
    xs, sd = task
    out = []
    for xi, x in xs:
        out.append((xi, 0, observe(x, None)))
        if len(x["atoms"]) >= 2:
            out.append((xi, 1, observe(x, sd * 7 + xi)))
        if x["cell"] and x.get("kind") != "near" and all(int(v) % 100 == 0 for row in x["cell"] for v in row) and (xi % 3 == sd % 3 or len(x["atoms"]) > 2):
            out.append((xi, 2, observe(x, None, intcell=True)))
    return out


def run(prop, tier, replay=None):
    out = Outcome(prop, tier)
    sd = seed()
    g = gen.all_tables()
    import mofun.detect_bonds as db
    elems = QUICK_ELEMS if tier == "quick" else list(db.COVALENT_RADII.keys())
    step = 50 if tier == "quick" else 25
    out.rule = ("crystals = every state of MC_Bond: element pairs %s at cutoff-1 / cutoff+1 (0.01 A) inside and through face, edge, corner "
                "images in two cells; grid scans (step %d) of Zr-Zr, Cs-I, C-C, Cu-O pairs in sheared/tilted/orthorhombic cells; 2..4-subsets of "
                "7 sites in ortho / tri / no cell, also shifted and wrapped; each also with atoms reordered; non-trivial = all"
                % ("of %d elements" % len(elems), step))
    if replay:
        rp = json.load(open(replay))["case"]
        xs = [rp["crystal"]]
    else:
        res = run_tlc("MC_Bond", cfg(elems, step, False), workers=16, timeout=3000, extra_modules_dir=g, tag="mcbond")
        if res.error:
            raise MachineryError("MC_Bond failed:\n" + res.error)
        out.model("MC_Bond", res)
        if res.violated:
            out.violation({"op": "spec", "clause": "design-level property violated: %s" % res.violated}, {"tlc": res.stdout[-2000:]})
        e = run_tlc("MC_Bond", cfg(elems, step, True), workers=8, timeout=3000, extra_modules_dir=g, tag="genbond")
        if e.error:
            raise MachineryError("MC_Bond emission failed:\n" + e.error)
        xs = [tla_string_to_json(rest) for t, rest in e.printed if t == "CRYSTAL"]
        out.exhaustive = True
    idx = list(enumerate(xs))
    tasks = [(idx[k::28], sd) for k in range(28)]
    with multiprocessing.get_context("fork").Pool(14) as pool:
        results = [r for part in pool.map(_chunk, tasks, chunksize=1) for r in part]
    out.evaluations = len(results)
    items = [{k: v for k, v in ev.items() if k != "exc_msg"} for _, _, ev in results]
    verdicts = shard_validate("Trace_Bond", TRACE_CFG, items, shards=14, workers=1, tag="val-C17", extra=g)
    out.traces = len(items)
    by = {}
    for (xi, var, ev), vd in zip(results, verdicts):
        out.case(ev)
        if vd == "ok":
            if ev["obs"]:
                out.sample({"cell": xs[xi]["cellname"], "kind": xs[xi]["kind"], "atoms": ev["atoms"], "bonds": ev["obs"]})
            continue
        by[vd] = by.get(vd, 0) + 1
        out.violation({"op": "detect_bonds", "clause": vd, "flags": [xs[xi]["kind"], xs[xi]["cellname"]] + (["reordered"] if var == 1 else ["integer-cell"] if var == 2 else []),
                       "exc": ev["exc"], "exc_msg": ev.get("exc_msg", "")}, {"crystal": xs[xi], "observed": ev})
    out.notes["rejected_by_clause"] = by
    out.assumptions = ["radius table and non-metal list read from /repo/mofun/detect_bonds.py at run time",
                       "coordinates are multiples of 0.01 A; distances exactly on a cutoff are not generated (float rounding)"]
    return out.finish()
