"""pytest plugin (loaded with `-p harness.testrecorder` while the repository's own test-suite runs on a scratch copy
of /repo's working tree): records every outermost call of a state-changing / structure-producing `mofun.Atoms`
operation as one transition in the format of Trace_AtomsAbs (pre-state, operation, arguments, post-state, all as
K-level values), so that the executions the repository's tests already drive are validated against the
specification step by step - whatever the tests themselves assert.

No source change: the methods are rebound from here.  Only small objects are recorded (projection cost) and only
objects whose numbers are exactly representable at the recording resolution are judged (TLC decides: `wf`)."""
import json
import os

import numpy as np

from .katoms import Rendering, empty_K
from .katoms import project as _project

# Resolution of the recording: 1e-6 Angstrom.  Operations that only carry positions along (delete, extend, subset,
# copy) are judged on positions *rounded* to that grid (a coordinate within 1e-3 grid units of a rounding boundary
# makes the state unrepresentable: `wf`); replicate computes with them, so there the numbers must be exact.
R = Rendering("tests", 1e-6)
_tol = [0.499]


def project(atoms, R):
    return _project(atoms, R, residual_tol=_tol[0], cell_tol=_tol[0])


LIMIT = 48
events = []
stats = {"calls": 0, "too_big": 0, "unrecordable": 0, "recorded": 0}
_depth = [0]
_test = [""]


def _blank():
    return {"op": "", "mode": "auto", "offs": [0, 0, 0, 0, 0], "map": [], "keys": [], "i": 0, "dims": [1, 1, 1],
            "ixs": [], "v": [0, 0, 0], "other": empty_K(), "pre": empty_K(), "post": empty_K(), "exc": "none",
            "wf": "ok", "src_same": "yes", "recorded": "yes"}


def _key(K, i):
    return [K["q"][i], list(K["pos"][i])]


def _indices(n, arg):
    ix = np.arange(n)[(np.array(arg) if len(arg) else np.array([], dtype=int)) if isinstance(arg, (list, tuple)) else arg]
    return [int(i) for i in np.atleast_1d(ix)]


def _b_delete(self, a, k, pre):
    ixs = _indices(len(self), a[0])
    return {"op": "Delete", "keys": [_key(pre, i) for i in ixs]}, None


def _b_pop(self, a, k, pre):
    i = a[0] if a else k.get("pos", -1)
    return {"op": "Pop", "i": int(i)}, None


def _b_extend(self, a, k, pre):
    other = a[0] if a else k["other"]
    offsets = k.get("offsets", a[1] if len(a) > 1 else None)
    sim = k.get("structure_index_map", a[2] if len(a) > 2 else {})
    if len(other) > LIMIT:
        return None, None
    rec = {"op": "Extend", "other": project(other, R), "mode": "auto" if offsets is None else "held",
           "map": [[int(j), _key(pre, int(i))] for j, i in sim.items()]}
    if offsets is not None:
        rec["offs"] = [int(x) for x in offsets]
    return rec, other


def _b_extend_types(self, a, k, pre):
    other = a[0] if a else k["other"]
    if len(other) > LIMIT:
        return None, None
    return {"op": "ExtendTypes", "other": project(other, R)}, other


def _b_replicate(self, a, k, pre):
    dims = a[0] if a else k["repldims"]
    _tol[0] = 1e-6
    return {"op": "Replicate", "dims": [int(x) for x in dims], "pre": project(self, R)}, self


def _b_getitem(self, a, k, pre):
    return {"op": "Subset", "ixs": _indices(len(self), a[0])}, self


def _b_copy(self, a, k, pre):
    return {"op": "Copy"}, self


BUILDERS = {"__delitem__": _b_delete, "pop": _b_pop, "extend": _b_extend, "extend_types": _b_extend_types,
            "replicate": _b_replicate, "__getitem__": _b_getitem, "copy": _b_copy}
RESULT_IS_NEW_OBJECT = ("replicate", "__getitem__", "copy")


def _wrap(cls, name):
    orig = getattr(cls, name)
    build = BUILDERS[name]

    def w(self, *a, **k):
        if _depth[0]:
            return orig(self, *a, **k)
        stats["calls"] += 1
        try:
            if len(self) > LIMIT:
                stats["too_big"] += 1
                return orig(self, *a, **k)
        except Exception:
            return orig(self, *a, **k)
        _depth[0] += 1
        try:
            rec = None
            try:
                pre = project(self, R)
                part, src = build(self, a, k, pre)
                if part is not None:
                    rec = _blank()
                    rec["pre"] = pre
                    rec.update(part)
                    srcK = project(src, R) if src is not None else None
            except Exception as e:
                rec = None
                why = "%s %s: %s" % (name, type(e).__name__, str(e)[:80])
                stats.setdefault("unrecordable_why", {})
                stats["unrecordable_why"][why] = stats["unrecordable_why"].get(why, 0) + 1
            if rec is None:
                stats["unrecordable"] += 1
                return orig(self, *a, **k)
            exc = None
            res = None
            try:
                res = orig(self, *a, **k)
            except Exception as e:      # noqa: the test may expect it; recorded, re-raised
                exc = e
            try:
                if exc is not None:
                    rec["exc"] = type(exc).__name__
                    rec["post"] = pre
                else:
                    rec["post"] = project(res if name in RESULT_IS_NEW_OBJECT else self, R)
                    rec["wf"] = rec["post"]["wf"]
                    if src is not None and project(src, R) != srcK:
                        rec["src_same"] = "no"
                rec["test"] = _test[0]
                events.append(rec)
                stats["recorded"] += 1
            except Exception:
                stats["unrecordable"] += 1
            if exc is not None:
                raise exc
            return res
        finally:
            _depth[0] -= 1
            _tol[0] = 0.499
    w.__name__ = getattr(orig, "__name__", name)
    w.__doc__ = getattr(orig, "__doc__", None)
    return orig, w


_installed = []

# ---------------------------------------------------------------------------------------------------------------------
# search / replacement calls of the tests (inputs and answers as plain numbers; judged at relation level by
# spec/RealFiles.tla through harness/recfind.py).  Nested searches (those made inside a replacement) are marked.
calls = []
FIND_LIMIT = 1500
_fdepth = [0]


def _plain(a, terms=False):
    d = {"el": [str(e) for e in a.elements], "pos": [[float(x) for x in r] for r in np.asarray(a.positions, dtype=float).reshape(-1, 3)],
         "cell": [[float(x) for x in r] for r in np.asarray(a.cell, dtype=float)] if a.cell is not None and np.size(a.cell) == 9 else [],
         "q": [float(x) for x in np.asarray(a.charges, dtype=float)]}
    if terms:
        d["bonds"] = [[int(x) for x in r] for r in np.asarray(a.bonds).reshape(-1, 2)]
    return d


def _wrap_find(orig):
    def w(structure, pattern, *a, **k):
        try:
            ok = len(structure) <= FIND_LIMIT and len(pattern) >= 1
            names = ("axisp1_idx", "axisp2_idx", "opoint_idx", "return_positions_and_quats", "atol", "verbose")
            kw = dict(zip(names, a))
            kw.update(k)
            rec = {"kind": "find", "nested": bool(_fdepth[0]), "test": _test[0], "S": _plain(structure), "P": _plain(pattern),
                   "kw": {"atol": float(kw.get("atol", 5e-2)), "rpq": bool(kw.get("return_positions_and_quats", False)),
                          "hints": [(-1 if kw.get(n) is None else int(kw.get(n))) for n in names[:3]]},
                   "exc": "none", "idx": [], "rpos": [], "quat": []} if ok else None
        except Exception:
            rec = None
        if rec is None:
            return orig(structure, pattern, *a, **k)
        try:
            try:
                res = orig(structure, pattern, *a, **k)
            except Exception as e:
                rec["exc"] = type(e).__name__
                calls.append(rec)
                raise
            try:
                if rec["kw"]["rpq"]:
                    idx, pos, quats = res
                    rec["rpos"] = [[[float(x) for x in r] for r in m] for m in pos]
                    rec["quat"] = [[float(x) for x in q.as_quat()] for q in quats]
                else:
                    idx = res
                rec["idx"] = [[int(i) for i in m] for m in idx]
                calls.append(rec)
            except Exception:
                pass
            return res
        finally:
            pass
    w.__name__ = orig.__name__
    w.__doc__ = orig.__doc__
    return w


def _wrap_replace(orig):
    def w(structure, search_pattern, replace_pattern, *a, **k):
        try:
            ok = len(structure) <= FIND_LIMIT
            names = ("replace_fraction", "atol", "axisp1_idx", "axisp2_idx", "opoint_idx", "return_num_matches", "replace_all",
                     "verbose", "positions_check_max_delta", "ignore_atoms_should_not_be_deleted_twice")
            kw = dict(zip(names, a))
            kw.update(k)
            rec = {"kind": "replace", "test": _test[0], "S": _plain(structure, True), "P": _plain(search_pattern, True),
                   "RP": _plain(replace_pattern, True),
                   "kw": {"atol": float(kw.get("atol", 5e-2)), "fraction": float(kw.get("replace_fraction", 1.0)),
                          "replace_all": bool(kw.get("replace_all", False)), "ignore": bool(kw.get("ignore_atoms_should_not_be_deleted_twice", False)),
                          "num": bool(kw.get("return_num_matches", False)),
                          "hints": [(-1 if kw.get(n) is None else int(kw.get(n))) for n in names[2:5]]},
                   "exc": "none", "R": {}, "n": -1, "inner": -1, "S_after": {}, "P_after": {}, "RP_after": {}} if ok else None
        except Exception:
            rec = None
        if rec is None:
            return orig(structure, search_pattern, replace_pattern, *a, **k)
        _fdepth[0] += 1
        n0 = len(calls)
        try:
            try:
                res = orig(structure, search_pattern, replace_pattern, *a, **k)
            except Exception as e:
                rec["exc"] = type(e).__name__
                rec["inner"] = n0 if len(calls) > n0 else -1
                calls.append(rec)
                raise
            try:
                r = res
                if rec["kw"]["num"]:
                    r, n = res
                    rec["n"] = int(n)
                rec["R"] = _plain(r, True)
                rec["S_after"], rec["P_after"], rec["RP_after"] = _plain(structure, True), _plain(search_pattern, True), _plain(replace_pattern, True)
                rec["inner"] = n0 if len(calls) > n0 else -1
                calls.append(rec)
            except Exception:
                pass
            return res
        finally:
            _fdepth[0] -= 1
    w.__name__ = orig.__name__
    w.__doc__ = orig.__doc__
    return w


def pytest_configure(config):
    from mofun import Atoms
    for name in BUILDERS:
        orig, w = _wrap(Atoms, name)
        _installed.append((Atoms, name, orig))
        setattr(Atoms, name, w)
    if os.environ.get("MOFUN_VERIF_RECORD_CALLS"):
        import mofun
        import mofun.mofun as mm
        f0, r0 = mm.find_pattern_in_structure, mm.replace_pattern_in_structure
        fw, rw = _wrap_find(f0), _wrap_replace(r0)
        for mod in (mm, mofun):
            _installed.append((mod, "find_pattern_in_structure", f0))
            _installed.append((mod, "replace_pattern_in_structure", r0))
            setattr(mod, "find_pattern_in_structure", fw)
            setattr(mod, "replace_pattern_in_structure", rw)


def pytest_runtest_logstart(nodeid, location):
    _test[0] = nodeid


def pytest_unconfigure(config):
    for cls, name, orig in _installed:
        setattr(cls, name, orig)
    path = os.environ.get("MOFUN_VERIF_RECORD")
    if path:
        with open(path, "w") as fh:
            json.dump({"events": events, "stats": stats}, fh)
    path = os.environ.get("MOFUN_VERIF_RECORD_CALLS")
    if path:
        with open(path, "w") as fh:
            json.dump({"calls": calls}, fh)
