"""Generated specification modules: tables read from the repository's current working tree on every run,
so that the spec side talks about 'that table' (the properties are about rules over the tables)."""
import importlib
import os

from .tlcrun import BUILD


def gen_dir():
    d = os.path.join(BUILD, "gen")
    os.makedirs(d, exist_ok=True)
    return d


def mass_table():
    import mofun.atomic_masses as am
    importlib.reload(am)
    rows = ['[el |-> "%s", m |-> %d]' % (el, round(m * 1e6)) for el, m in am.ATOMIC_MASSES.items()]
    text = ("---- MODULE MassTable ----\n\\* generated from /repo/mofun/atomic_masses.py (micro mass units, table order)\n"
            "Table == <<\n  " + ",\n  ".join(rows) + "\n>>\n====\n")
    with open(os.path.join(gen_dir(), "MassTable.tla"), "w") as fh:
        fh.write(text)
    return gen_dir()


def radius_table():
    import mofun.detect_bonds as db
    importlib.reload(db)
    cases = " [] ".join('e = "%s" -> %d' % (el, round(r * 100)) for el, r in db.COVALENT_RADII.items())
    text = ("---- MODULE RadiusTable ----\n\\* generated from /repo/mofun/detect_bonds.py (radii in 0.01 Angstrom)\n"
            "Radius(e) == CASE " + cases + "\n"
            "RadiusElements == <<" + ", ".join('"%s"' % e for e in db.COVALENT_RADII) + ">>\n"
            "NonMetals == {" + ", ".join('"%s"' % e for e in db.NON_METALS) + "}\n====\n")
    with open(os.path.join(gen_dir(), "RadiusTable.tla"), "w") as fh:
        fh.write(text)
    return gen_dir()


def all_tables():
    mass_table()
    radius_table()
    return gen_dir()


if __name__ == "__main__":
    print(all_tables())


