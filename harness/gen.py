"""Generated specification modules: tables read from the repository's current working tree on every run,
so that the spec side talks about 'that table' (the properties are about rules over the tables)."""
import importlib
import os

from .tlcrun import BUILD


def gen_dir():
    d = os.path.join(BUILD, "gen")
    os.makedirs(d, exist_ok=True)
    return d


def mass_table():
    import mofun.atomic_masses as am
    importlib.reload(am)
    rows = ['[el |-> "%s", m |-> %d]' % (el, round(m * 1e6)) for el, m in am.ATOMIC_MASSES.items()]
    text = ("---- MODULE MassTable ----\n\\* generated from /repo/mofun/atomic_masses.py (micro mass units, table order)\n"
            "Table == <<\n  " + ",\n  ".join(rows) + "\n>>\n====\n")
    _write_atomically(os.path.join(gen_dir(), "MassTable.tla"), text)
    return gen_dir()


def radius_table():
    import mofun.detect_bonds as db
    importlib.reload(db)
    cases = " [] ".join('e = "%s" -> %d' % (el, round(r * 100)) for el, r in db.COVALENT_RADII.items())
    text = ("---- MODULE RadiusTable ----\n\\* generated from /repo/mofun/detect_bonds.py (radii in 0.01 Angstrom)\n"
            "Radius(e) == CASE " + cases + "\n"
            "RadiusElements == <<" + ", ".join('"%s"' % e for e in db.COVALENT_RADII) + ">>\n"
            "NonMetals == {" + ", ".join('"%s"' % e for e in db.NON_METALS) + "}\n====\n")
    _write_atomically(os.path.join(gen_dir(), "RadiusTable.tla"), text)
    return gen_dir()


def uff_table():
    import mofun.uff4mof as u
    importlib.reload(u)
    g6 = {"O", "S", "Se", "Te", "Po"}
    rows = []
    for name, p in u.UFF4MOF.items():
        el = name[0:2].strip("_")
        h = name[2] if len(name) > 2 else "0"
        rows.append('[name |-> "%s", el |-> "%s", h |-> "%s", theta |-> %d, main |-> %s, g6 |-> %s]' % (
            name, el, h, round(p[1] * 100), "TRUE" if el in u.MAIN_GROUP_ELEMENTS else "FALSE", "TRUE" if el in g6 else "FALSE"))
    text = ("---- MODULE UffTable ----\n\\* generated from /repo/mofun/uff4mof.py: type name, element, hybridisation character (third character of the\n"
            "\\* name, \"0\" if none), natural angle in 0.01 degree, main-group flag, oxygen-group flag\n"
            "UffTypes == <<\n  " + ",\n  ".join(rows) + "\n>>\n====\n")
    _write_atomically(os.path.join(gen_dir(), "UffTable.tla"), text)
    return gen_dir()


def _write_atomically(path, text):
    """several checks may run at the same time and all regenerate the tables: never expose a half-written file"""
    tmp = "%s.%d.tmp" % (path, os.getpid())
    with open(tmp, "w") as fh:
        fh.write(text)
    os.replace(tmp, path)


def all_tables():
    mass_table()
    radius_table()
    uff_table()
    return gen_dir()


if __name__ == "__main__":
    print(all_tables())




