"""C18: UFF parameters.  TLC checks the case analysis (UffCases over the generated table) exhaustively for reversal
symmetry and for dependence on the end types only through 'is sp2', and emits the case table; the harness calls
guess_bond_order / bond_params / angle_params / dihedral_params / pair_coeffs and compares discrete outputs (judged by
TLC in Trace_Uff) and numeric outputs with an independent evaluator of the published formulas (below), keyed by the
rule TLC selected.  The numeric half is reference evaluation, not model checking (DESIGN.md section 10)."""
import contextlib
import io
import itertools
import json
import math

import numpy as np
import multiprocessing
import random

from . import gen
from .tlcrun import run_tlc, tla_string_to_json, MachineryError
from .common import Outcome, shard_validate, seed

TRACE_CFG = "SPECIFICATION Spec\nINVARIANT Report\nCHECK_DEADLOCK FALSE\n"


def cfg(emit):
    return ("SPECIFICATION Spec\nCONSTANTS\n  Emit = %s\nINVARIANT %s\n%sCHECK_DEADLOCK FALSE\n"
            % ("TRUE" if emit else "FALSE", "EmitInv" if emit else "CaseInv", "" if emit else "INVARIANT StyleInv\n"))


# ---- independent evaluator of the UFF functional forms (Rappe et al., JACS 1992, as documented in the library) -------
def table():
    from mofun.uff4mof import UFF4MOF
    return UFF4MOF


def ref_bond(a1, a2, bo):
    U = table()
    ri, zi, xi = U[a1][0], U[a1][5], U[a1][8]
    rj, zj, xj = U[a2][0], U[a2][5], U[a2][8]
    rbo = -0.1332 * (ri + rj) * math.log(bo)
    ren = ri * rj * (math.sqrt(xi) - math.sqrt(xj)) ** 2 / (xi * ri + xj * rj)
    rij = ri + rj + rbo - ren
    return 0.5 * 664.12 * zi * zj / rij ** 3, rij


def ref_angle(a1, a2, a3, bo12, bo23):
    U = table()
    th = math.radians(U[a2][1])
    rij = ref_bond(a1, a2, bo12)[1]
    rjk = ref_bond(a2, a3, bo23)[1]
    rik = math.sqrt(rij * rij + rjk * rjk - 2 * rij * rjk * math.cos(th))
    K = 664.12 * U[a1][5] * U[a3][5] / rik ** 5 * (3 * rij * rjk * (1 - math.cos(th) ** 2) - rik * rik * math.cos(th))
    c2 = 1 / (4 * math.sin(th) ** 2) if abs(math.sin(th)) > 1e-12 else float("inf")
    return K, c2 * (2 * math.cos(th) ** 2 + 1), -4 * c2 * math.cos(th), c2


def ref_torsion(rule, a2, a3, M, bo):
    U = table()
    if rule == "sp3-sp3":
        v = math.sqrt(U[a2][6] * U[a3][6])
    elif rule == "sp3-oxygen-group":
        v1 = 2.0 if a2.startswith("O_") else 6.8
        v2 = 2.0 if a3.startswith("O_") else 6.8
        v = math.sqrt(v1 * v2)
    elif rule in ("sp2-sp2", "sp3-oxygen-group-with-sp2"):
        v = 5.0 * math.sqrt(U[a2][7] * U[a3][7]) * (1 + 4.18 * math.log(bo))
    elif rule == "sp2-end-on-sp2-centre":
        v = 2.0
    elif rule == "sp2-sp3":
        v = 1.0
    else:
        return None
    return v / M / 2.0


def close(x, y, rel=1e-9):
    if not (math.isfinite(x) and math.isfinite(y)):
        return False
    return abs(x - y) <= rel * max(1.0, abs(x), abs(y))


def quiet():
    return contextlib.redirect_stdout(io.StringIO()), contextlib.redirect_stderr(io.StringIO())


def bond_event(a1, a2, rules=None):
    from mofun.rough_uff import guess_bond_order, bond_params
    ev = {"kind": "bond", "a": [a1, a2], "bo2": 0, "num": "ok", "sym": "yes", "exc": "none"}
    try:
        o, e = quiet()
        with o, e:
            bo = guess_bond_order(a1, a2)
            k, r = bond_params(a1, a2)
            k2, r2 = bond_params(a2, a1)
            ks = {b: bond_params(a1, a2, bond_order=b) for b in (1, 1.5, 2)}
        ev["bo2"] = int(round(bo * 2))
        rk, rr = ref_bond(a1, a2, bo)
        if not (close(k, rk) and close(r, rr)):
            ev["num"] = "guessed-order value differs from the formula"
        elif not (math.isfinite(k) and k > 0 and r > 0):
            ev["num"] = "force constant or length not positive and finite"
        else:
            for b, (kk, rb) in ks.items():
                if not (close(kk, ref_bond(a1, a2, b)[0]) and close(rb, ref_bond(a1, a2, b)[1])):
                    ev["num"] = "explicit bond order %s differs from the formula" % b
        if (k, r) != (k2, r2) and not (close(k, k2, 1e-12) and close(r, r2, 1e-12) and "%10.6f %10.6f" % (k, r) == "%10.6f %10.6f" % (k2, r2)):
            ev["sym"] = "no"
    except Exception as ex:
        ev["exc"] = type(ex).__name__
    return ev


def bondrule_event(a1, a2, rules):
    """user bond-order rules: rules = [[type names], bond order]...; the order the library derives is judged by TLC
    (RuleOrder2); every parameter function that accepts rules must use exactly that order"""
    from mofun.rough_uff import guess_bond_order, bond_params, angle_params, dihedral_params
    R = [(set(t), bo) for t, bo in rules]
    ev = {"kind": "bondrule", "a": [a1, a2], "rules": [{"t": list(t), "bo2": int(round(bo * 2))} for t, bo in rules],
          "bo2": 0, "num": "ok", "sym": "yes", "exc": "none"}
    try:
        o, e = quiet()
        with o, e:
            bo = guess_bond_order(a1, a2, R)
            bo_r = guess_bond_order(a2, a1, R)
            k, r = bond_params(a1, a2, bond_order_rules=R)
            ang = angle_params(a1, a2, a1, bond_order_rules=R)
            ang_x = angle_params(a1, a2, a1, bond_orders=[bo, bo])
        ev["bo2"] = int(round(bo * 2))
        if bo != bo_r:
            ev["sym"] = "no"
        rk, rr = ref_bond(a1, a2, bo)
        if not (close(k, rk) and close(r, rr)):
            ev["num"] = "bond parameters do not use the order the rules give"
        elif len(ang) != len(ang_x) or ang[0] != ang_x[0] or not all(close(x, y) for x, y in zip(ang[1:], ang_x[1:])):
            ev["num"] = "angle parameters do not use the orders the rules give"
        else:
            def tors(**kw):
                try:
                    with quiet()[0], quiet()[1]:
                        return dihedral_params("H_", a1, a2, "H_", **kw)
                except Exception as ex:
                    return "raised " + type(ex).__name__
            t1, t2 = tors(bond_order_rules=R), tors(bond_order=bo)
            same = (t1 == t2) if (t1 is None or t2 is None or isinstance(t1, str) or isinstance(t2, str)) else \
                (t1[0] == t2[0] and tuple(t1[2:]) == tuple(t2[2:]) and close(t1[1], t2[1]))
            if not same:
                ev["num"] = "torsion parameters do not use the order the rules give"
    except Exception as ex:
        ev["exc"] = type(ex).__name__
    return ev


def rule_jobs(a1, a2, other):
    """rule lists around the bond a1-a2 (other: a third type): exact pair, pair evaluated on the like-atom bonds, a rule
    about another pair, first match wins, single-type rule"""
    jobs = [("bondrule", a1, a2, [[[a1, a2], 2.5]]), ("bondrule", a2, a1, [[[a1, a2], 2.5]]),
            ("bondrule", a1, a2, [[[a1, a2], 2.5], [[a1, a2], 3.0]]), ("bondrule", a1, a2, [[[a2, other], 3.0], [[a2, a1], 2.5]]),
            ("bondrule", a1, a1, [[[a1], 2.5]])]
    if a1 != a2:
        jobs += [("bondrule", a1, a1, [[[a1, a2], 2.5]]), ("bondrule", a2, a2, [[[a1, a2], 2.5]]),
                 ("bondrule", a1, a2, [[[a1], 2.5]]), ("bondrule", a1, a2, [[[a1], 2.5], [[a2], 3.0]])]
    if other not in (a1, a2):
        jobs += [("bondrule", a1, a2, [[[a1, other], 2.5]]), ("bondrule", a1, a2, [[[a1, a2, other], 2.5]])]
    return jobs


def angle_event(a1, a2, a3):
    from mofun.rough_uff import angle_params, guess_bond_order
    ev = {"kind": "angle", "a": [a1, a2, a3], "style": "", "b": 0, "n": 0, "num": "ok", "sym": "yes", "exc": "none"}
    try:
        o, e = quiet()
        with o, e:
            p = angle_params(a1, a2, a3)
            q = angle_params(a3, a2, a1)
            b12, b23 = guess_bond_order(a1, a2), guess_bond_order(a2, a3)
            pe = angle_params(a1, a2, a3, bond_orders=[1.5, 2])
            # explicit orders in the forms callers use: plain ints, floats, one of them left to the guess; list / tuple / array
            h = sum(ord(c) for c in a1 + a2 + a3)
            x1, x2 = [(1, 2), (2, 2), (1, 1), (2, 1), (1.0, 2.0), (1, 1.5), (None, 2), (1, None)][h % 8]
            cont = [list, tuple, (lambda t: np.array(t) if None not in t else list(t))][(h // 8) % 3]
            pv = angle_params(a1, a2, a3, bond_orders=cont((x1, x2)))
        ev["style"] = p[0]
        K, c0, c1, c2 = ref_angle(a1, a2, a3, b12, b23)
        if p[0] == "cosine/periodic":
            ev["b"], ev["n"] = int(p[2]), int(p[3])
            vals, refs = [p[1]], [K]
        else:
            vals, refs = list(p[1:5]), [K, c0, c1, c2]
        if len(vals) != len(refs) or not all(close(v, r) for v, r in zip(vals, refs)):
            ev["num"] = "differs from the formula (guessed bond orders)"
        elif not (math.isfinite(p[1]) and p[1] > 0):
            ev["num"] = "force constant not positive and finite"
        elif not close(pe[1], ref_angle(a1, a2, a3, 1.5, 2)[0]):
            ev["num"] = "differs from the formula (explicit bond orders)"
        elif not close(pv[1], ref_angle(a1, a2, a3, b12 if x1 is None else x1, b23 if x2 is None else x2)[0]):
            ev["num"] = "differs from the formula (explicit bond orders)"
        if p[0] != q[0] or len(p) != len(q) or not all(close(x, y, 1e-12) for x, y in zip(p[1:], q[1:])):
            ev["sym"] = "no"
    except Exception as ex:
        ev["exc"] = type(ex).__name__
    return ev


def torsion_event(a1, a2, a3, a4, M, bo, rule_of):
    from mofun.rough_uff import dihedral_params, guess_bond_order

    def call(x1, x2, x3, x4):
        try:
            o, e = quiet()
            with o, e:
                r = dihedral_params(x1, x2, x3, x4, num_dihedrals_about_bond=M, bond_order=bo)
            return ("none", None) if r is None else ("harmonic", r)
        except Exception:
            return ("unsupported", None)
    ev = {"kind": "torsion", "a": [a1, a2, a3, a4], "def": "", "n": 0, "d": 0, "rule": "", "num": "ok", "sym": "yes"}
    d, r = call(a1, a2, a3, a4)
    d2, r2 = call(a4, a3, a2, a1)
    ev["def"] = d
    ends = ("2" if len(a1) > 2 and a1[2] == "2" else "x") + ("2" if len(a4) > 2 and a4[2] == "2" else "x")
    case = rule_of[(a2, a3)][ends]
    ev["rule"] = case["rule"]
    if d == "harmonic":
        ev["n"], ev["d"] = int(r[3]), int(r[2])
        o, e = quiet()
        with o, e:
            b = bo if bo is not None else guess_bond_order(a2, a3)
        ref = ref_torsion(case["rule"], a2, a3, M, b)
        if r[0] != "harmonic":
            ev["num"] = "style is not harmonic"
        elif ref is None or not close(r[1], ref):
            ev["num"] = "barrier differs from the formula of rule %s" % case["rule"]
        elif not math.isfinite(r[1]):
            ev["num"] = "not finite"
    if d != d2 or (d == "harmonic" and (r[0] != r2[0] or r[2:] != r2[2:] or not close(r[1], r2[1], 1e-12))):
        ev["sym"] = "no"
    return ev


def pair_event(a1):
    from mofun.rough_uff import pair_coeffs
    U = table()
    ev = {"kind": "pair", "a": [a1], "num": "ok", "exc": "none"}
    try:
        eps, sig = pair_coeffs(a1)
        if not (close(eps, U[a1][3]) and close(sig, U[a1][2] * 2 ** (-1.0 / 6.0))):
            ev["num"] = "Lennard-Jones conversion differs"
    except Exception as ex:
        ev["exc"] = type(ex).__name__
    return ev


def _chunk(task):
    jobs, rule_of = task
    out = []
    for j in jobs:
        if j[0] == "bond":
            out.append(bond_event(j[1], j[2]))
        elif j[0] == "bondrule":
            out.append(bondrule_event(j[1], j[2], j[3]))
        elif j[0] == "angle":
            out.append(angle_event(j[1], j[2], j[3]))
        elif j[0] == "torsion":
            out.append(torsion_event(j[1], j[2], j[3], j[4], j[5], j[6], rule_of))
        else:
            out.append(pair_event(j[1]))
    return out


def run(prop, tier, replay=None):
    out = Outcome(prop, tier)
    sd = seed()
    rnd = random.Random(sd)
    g = gen.all_tables()
    names = list(table().keys())
    out.rule = ("TLC: one state per ordered pair of centre types (all %d^2); code: every ordered pair for bonds; angles: every centre x "
                "sampled end pairs; torsions: every centre pair x sampled end types x multiplicities x bond orders (quick: a seeded "
                "sample of centre pairs; thorough: all); pair coefficients for every type" % len(names))
    res = run_tlc("MC_Uff", cfg(False), workers=16, timeout=3000, extra_modules_dir=g, tag="mcuff")
    if res.error:
        raise MachineryError("MC_Uff failed:\n" + res.error)
    out.model("MC_Uff", res)
    if res.violated:
        out.violation({"op": "spec", "clause": "case analysis property violated: %s" % res.violated}, {"tlc": res.stdout[-2000:]})
    e = run_tlc("MC_Uff", cfg(True), workers=8, timeout=3000, extra_modules_dir=g, tag="genuff")
    if e.error:
        raise MachineryError("MC_Uff emission failed:\n" + e.error)
    rule_of = {}
    for t, rest in e.printed:
        if t == "CASE":
            c = tla_string_to_json(rest)
            rule_of[(c["j"], c["k"])] = {x["ends"]: x["t"] for x in c["cases"]}
    if len(rule_of) != len(names) ** 2:
        raise MachineryError("case table incomplete: %d of %d" % (len(rule_of), len(names) ** 2))
    pairs = list(itertools.product(names, names))
    jobs = [("pair", n) for n in names]
    bp = pairs if tier == "thorough" else rnd.sample(pairs, 6000) + [(a, a) for a in names]
    jobs += [("bond", a, b) for a, b in bp]
    # stratified: the types for which bond orders other than 1 are guessed and the centres with a torsion rule are
    # always combined with each other; the rest is sampled
    core = [t for t in ("C_R", "N_R", "O_R", "C_2", "N_2", "O_2", "C_3", "N_3", "O_3", "H_", "C_1", "Zr3+4", "Cu4+2") if t in names]
    nend = 40 if tier == "thorough" else 4
    for a2 in names:
        jobs.append(("angle", a2, a2, a2))
        for a1, a3 in ((core[0], core[3]), (core[3], core[6])):
            jobs.append(("angle", a1, a2, a3))
        for _ in range(nend):
            jobs.append(("angle", rnd.choice(core + names), a2, rnd.choice(core + names)))
    for a1 in core:
        for a2 in core:
            for a3 in core[:7]:
                jobs.append(("angle", a1, a2, a3))
    # user bond-order rules: all pairs of the core types, plus sampled pairs
    rp = [(a, b) for a in core for b in core] + rnd.sample(pairs, 150 if tier == "quick" else 3000)
    for a, b in rp:
        jobs += rule_jobs(a, b, rnd.choice(core))
    out.notes["rule_pairs"] = len(rp)
    centres = [t for t in names if len(t) > 2 and t[2] in "32R1"]
    cp = [(a, b) for a in centres for b in centres]
    tp = pairs if tier == "thorough" else cp + rnd.sample(pairs, 1500)
    ends = ["C_2", "C_3", "H_", "C_R", "N_2", "O_3", "Zr3+4"]
    for a2, a3 in tp:
        for _ in range(1 if tier == "quick" else 4):
            jobs.append(("torsion", rnd.choice(ends + names[:30]), a2, a3, rnd.choice(ends + names[-30:]), rnd.choice([1, 2, 3, 4, 6, 9]),
                         rnd.choice([None, None, 1, 1.5, 2])))
    out.notes["torsion_centre_pairs"] = len(tp)
    rnd.shuffle(jobs)
    tasks = [(jobs[k::28], rule_of) for k in range(28)]
    with multiprocessing.get_context("fork").Pool(14) as pool:
        events = [r for part in pool.map(_chunk, tasks, chunksize=1) for r in part]
    out.evaluations = len(events)
    # uniform shapes for TLC
    for ev in events:
        for k, v in (("bo2", 0), ("rules", []), ("num", "ok"), ("sym", "yes"), ("exc", "none"), ("style", ""), ("b", 0), ("n", 0), ("def", ""), ("d", 0), ("rule", "")):
            ev.setdefault(k, v)
    verdicts = shard_validate("Trace_Uff", TRACE_CFG, events, shards=14, workers=1, tag="val-C18", extra=g)
    out.traces = len(events)
    by = {}
    for ev, vd in zip(events, verdicts):
        out.case(ev)
        if vd == "ok":
            out.sample(ev)
            continue
        by[vd] = by.get(vd, 0) + 1
        if vd.startswith("blocked"):
            continue
        out.violation({"op": ev["kind"], "clause": vd.split(":")[0], "flags": [], "types": ev["a"], "detail": vd}, {"event": ev})
    out.notes["rejected_by_clause"] = by
    out.assumptions = ["numeric values are compared with the independent evaluator in harness/uffops.py (reference evaluation; TLC decides the "
                       "discrete case analysis only)", "UFF table read from /repo/mofun/uff4mof.py at run time"]
    return out.finish()
