"""C01 / C02 / C03 on the inputs of the repository's own tests (code -> spec, inputs not chosen by the spec).

harness/testrecorder.py records every search the tests make (also those made inside a replacement): structure, pattern,
options and the answer the test saw.  Those inputs are real molecules and MOF fragments with floating-point geometry,
not lattice crystals, so `Find.tla` (exact integer geometry) does not apply; they are judged at relation level by
`RealFiles.tla`:

 * `JudgeFit` (C01): every reported match lists distinct existing atoms with the pattern's elements; the best proper
   rigid fit (Kabsch, rotations only) of the pattern onto the matched atoms at their best periodic images has a
   root-mean-square deviation of at most the tolerance (necessary for "every atom within the tolerance": sound); returned
   positions are stored positions plus lattice vectors; the returned rotation carries the pattern onto them.
 * `JudgeGroups` (C02, C03): the set of reported atom groups equals the one of an independent exhaustive search written
   here (27 images, pruning by distances, final proper fit) wherever every candidate is either well inside (half the
   tolerance) or clearly outside (twice the tolerance); and it is invariant under re-execution with another seed,
   shift-and-wrap, rigid motion of the pattern, atom permutation, hint triples; a 2x1x1 supercell has twice the groups.

The harness computes numbers (fit residuals in micro-Angstrom, index maps); TLC decides."""
import contextlib
import io
import itertools
import json
import random

import numpy as np

from . import katoms, findops
from .common import shard_validate, time_limit
from .realfiles import BLANK as RBLANK, TRACE_CFG, gev, groups

MICRO = 1e6


def quiet():
    return contextlib.redirect_stderr(io.StringIO())


def build(d):
    from mofun import Atoms
    with quiet():
        kw = {}
        if d["cell"]:
            kw["cell"] = np.array(d["cell"], dtype=float)
        return Atoms(elements=list(d["el"]), positions=np.array(d["pos"], dtype=float).reshape(-1, 3), **kw)


def find(s, p, atol, sd=0, **kw):
    from mofun import find_pattern_in_structure
    random.seed(sd)
    np.random.seed(sd)
    with quiet(), contextlib.redirect_stdout(io.StringIO()), time_limit(120):
        return find_pattern_in_structure(s, p, atol=atol, **kw)


def kabsch_rms(P, Q):
    """root-mean-square and maximum deviation of the best proper rotation + translation carrying P onto Q"""
    P = np.asarray(P, dtype=float)
    Q = np.asarray(Q, dtype=float)
    if len(P) == 1:
        return 0.0, 0.0
    p0, q0 = P - P.mean(axis=0), Q - Q.mean(axis=0)
    H = p0.T @ q0
    U, S, Vt = np.linalg.svd(H)
    d = np.sign(np.linalg.det(Vt.T @ U.T)) or 1.0
    R = Vt.T @ np.diag([1.0, 1.0, d]) @ U.T
    diff = p0 @ R.T - q0
    dev = np.linalg.norm(diff, axis=1)
    return float(np.sqrt((dev ** 2).mean())), float(dev.max())


def widths(cell):
    c = np.array(cell, dtype=float)
    vol = abs(np.linalg.det(c))
    return [vol / np.linalg.norm(np.cross(c[(i + 1) % 3], c[(i + 2) % 3])) for i in range(3)]


def best_images(S, cell, idx, P):
    """positions of the atoms idx at the periodic images that reproduce the pattern's distances best (sequentially: each
    atom at the image closest to where the earlier ones put it)"""
    shifts = np.array([np.array(v) @ cell for v in itertools.product((-1, 0, 1), repeat=3)]) if cell is not None else np.zeros((1, 3))
    out = [S[idx[0]]]
    for k in range(1, len(idx)):
        cands = S[idx[k]] + shifts
        cost = np.zeros(len(cands))
        for j in range(k):
            cost += (np.linalg.norm(cands - out[j], axis=1) - np.linalg.norm(P[k] - P[j])) ** 2
        out.append(cands[int(np.argmin(cost))])
    return np.array(out)


def reference_search(S, els, cell, P, pels, atol):
    """independent exhaustive search: returns (certain groups, ambiguous?)  A candidate tuple (first atom in the home
    cell, the others at any of the 27 images) whose distances all agree within 2*atol is classified by its best proper
    fit: maximum deviation <= atol/2 -> certainly an occurrence; rms deviation > 2*atol ... or distances off by more
    than 2 atol -> certainly none; anything else makes the input ambiguous (not judged)."""
    S = np.asarray(S, dtype=float)
    P = np.asarray(P, dtype=float)
    n = len(P)
    shifts = np.array([np.array(v) @ cell for v in itertools.product((-1, 0, 1), repeat=3)])
    img_pos = (S[None, :, :] + shifts[:, None, :]).reshape(-1, 3)
    img_idx = np.tile(np.arange(len(S)), len(shifts))
    img_el = np.array(list(els) * len(shifts))
    dP = np.linalg.norm(P[:, None, :] - P[None, :, :], axis=2)
    loose = 2.0 * atol + 1e-9
    found, ambiguous = set(), False
    budget = [400000]

    def rec(chosen_pos, chosen_idx):
        nonlocal ambiguous
        k = len(chosen_idx)
        budget[0] -= 1
        if budget[0] < 0:
            raise TimeoutError("reference search budget")
        if k == n:
            rms, mx = kabsch_rms(P, np.array(chosen_pos))
            if mx <= atol / 2.0:
                found.add(tuple(sorted(chosen_idx)))
            elif rms > 2.0 * atol:
                pass
            else:
                ambiguous = True
            return
        ok = img_el == pels[k]
        for j in range(k):
            ok &= np.abs(np.linalg.norm(img_pos - chosen_pos[j], axis=1) - dP[k, j]) <= loose
        for c in np.nonzero(ok)[0]:
            if int(img_idx[c]) in chosen_idx:
                continue
            rec(chosen_pos + [img_pos[c]], chosen_idx + [int(img_idx[c])])

    for i in range(len(S)):
        if els[i] == pels[0]:
            rec([S[i]], [i])
    return [list(g) for g in sorted(found)], ambiguous


def fit_event(c):
    """JudgeFit input for one recorded call (the answer the test saw)"""
    S = np.array(c["S"]["pos"], dtype=float).reshape(-1, 3)
    P = np.array(c["P"]["pos"], dtype=float).reshape(-1, 3)
    cell = np.array(c["S"]["cell"], dtype=float) if c["S"]["cell"] else None
    atol = c["kw"]["atol"]
    diam = max([np.linalg.norm(a - b) for a in P for b in P] or [0.0])
    wok = "yes"
    if cell is None or abs(np.linalg.det(cell)) < 1e-9:
        wok = "no"
        cell = None
    elif min(widths(cell)) <= diam + 2 * atol + 1e-6:
        wok = "no"
    inside = "yes"
    if cell is not None:
        f = S @ np.linalg.inv(cell)
        if f.size and (f.min() < -1e-9 or f.max() > 1 + 1e-9):
            inside = "no"
    ev = {"kind": "fit", "exc": c["exc"], "natoms": len(S), "npat": len(P), "matches": c["idx"], "atol": int(round(atol * MICRO)),
          "widths_ok": wok, "inside": inside, "el_ok": [], "rms": [], "rpos_ok": [], "rot_rms": []}
    for m, idx in enumerate(c["idx"]):
        inr = all(0 <= i < len(S) for i in idx) and len(idx) == len(P)
        if not inr:
            ev["el_ok"].append("no")
            ev["rms"].append(-1)
            ev["rpos_ok"].append("na")
            ev["rot_rms"].append(-1)
            continue
        ev["el_ok"].append("yes" if [c["S"]["el"][i] for i in idx] == list(c["P"]["el"]) else "no")
        Q = best_images(S, cell, idx, P)
        rms, _ = kabsch_rms(P, Q)
        ev["rms"].append(int(np.ceil(rms * MICRO)) if np.isfinite(rms) else 2 ** 30)
        if c["kw"]["rpq"] and c["rpos"]:
            RP = np.array(c["rpos"][m], dtype=float).reshape(-1, 3)
            good = len(RP) == len(idx)
            if good and cell is not None:
                fr = (RP - S[list(idx)]) @ np.linalg.inv(cell)
                good = bool(np.all(np.abs(fr - np.rint(fr)) < 1e-6))
            elif good:
                good = bool(np.allclose(RP, S[list(idx)], atol=1e-6))
            ev["rpos_ok"].append("yes" if good else "no")
            if good and c["quat"]:
                from scipy.spatial.transform import Rotation
                rot = Rotation.from_quat(c["quat"][m])
                moved = rot.apply(P)
                d = (moved - moved.mean(axis=0)) - (RP - RP.mean(axis=0))
                ev["rot_rms"].append(int(np.ceil(float(np.sqrt((np.linalg.norm(d, axis=1) ** 2).mean())) * MICRO)))
            else:
                ev["rot_rms"].append(-1)
        else:
            ev["rpos_ok"].append("na")
            ev["rot_rms"].append(-1)
    return ev


def relation_events(c, sd, tier):
    """re-executions of one recorded search on the current tree under other representations (JudgeGroups)"""
    rnd = random.Random(sd)
    s, p = build(c["S"]), build(c["P"])
    atol = c["kw"]["atol"]
    evs = []
    S = np.array(c["S"]["pos"], dtype=float).reshape(-1, 3)
    P = np.array(c["P"]["pos"], dtype=float).reshape(-1, 3)
    cell = np.array(c["S"]["cell"], dtype=float)
    try:
        base = groups(find(s, p, atol))
    except Exception as e:
        return [gev("re-execution", "same", groups(c["idx"]), exc=type(e).__name__ + ": " + str(e)[:80])]
    evs.append(gev("re-execution-of-the-recorded-call", "same", groups(c["idx"]), after=base))
    # independent exhaustive search (completeness / no spurious group), only where nothing is near the tolerance
    try:
        ref, amb = reference_search(S, c["S"]["el"], cell, P, c["P"]["el"], atol)
    except TimeoutError:
        ref, amb = [], True
    if not amb:
        evs.append(gev("independent-exhaustive-search", "same", ref, after=base))
    else:
        return evs                       # near-tolerance candidates: which of them pass may depend on the representation

    def attempt(what, rel, fn):
        try:
            evs.append(gev(what, rel, base, **fn()))
        except Exception as e:
            evs.append(gev(what, rel, base, exc=type(e).__name__ + ": " + str(e)[:80]))
    attempt("another-random-seed", "same", lambda: dict(after=groups(find(s, p, atol, sd=rnd.randrange(1 << 30)))))

    def shifted():
        t = s.copy()
        v = np.array([rnd.uniform(-30, 30) for _ in range(3)])
        f = ((t.positions + v) @ np.linalg.inv(t.cell)) % 1.0
        t.positions = f @ t.cell
        return dict(after=groups(find(t, p, atol)))
    attempt("shift-and-wrap", "same", shifted)

    def moved():
        q = p.copy()
        R = katoms.random_rotation(np.random.default_rng(rnd.randrange(1 << 30)))
        q.positions = q.positions @ R.T + np.array([rnd.uniform(-9, 9) for _ in range(3)])
        return dict(after=groups(find(s, q, atol)))
    attempt("rigid-motion-of-the-pattern", "same", moved)

    def permuted():
        n = len(s)
        order = list(range(n))
        rnd.shuffle(order)
        with quiet():
            t = s[order]
        newof = [0] * n
        for k, o in enumerate(order):
            newof[o] = k
        return dict(after=groups(find(t, p, atol)), map_=newof)
    attempt("atom-permutation", "perm", permuted)
    if len(P) >= 2:
        diam = max(np.linalg.norm(a - b) for a in P for b in P)

        def good(h):
            ax = P[h[1]] - P[h[0]]
            if np.linalg.norm(ax) < 0.8 * diam:
                return False
            if h[2] is None:
                return True
            off = np.linalg.norm(np.cross(ax, P[h[2]] - P[h[0]])) / np.linalg.norm(ax)
            return off > 0.3 * diam
        hs = [h for h in findops.valid_hints([{"el": e, "pos": list(x)} for e, x in zip(c["P"]["el"], P)]) if good(h)]
        zero = [h for h in hs if h[0] == 0 or h[1] == 0]
        for h in ([rnd.choice(zero)] if zero else []) + ([rnd.choice(hs)] if hs else []):
            kw = {k: x for k, x in zip(("axisp1_idx", "axisp2_idx", "opoint_idx"), h) if x is not None}
            attempt("hints-%s" % (list(h),), "same", lambda kw=kw: dict(after=groups(find(s, p, atol, **kw))))
    if len(S) <= 130:
        def rep():
            with quiet():
                t = s.replicate((2, 1, 1))
            inv = np.linalg.inv(cell)
            key = lambda el, x: (str(el),) + tuple(int(v) for v in np.rint(((x @ inv) % 1.0) * 1e5).astype(int) % 100000)
            keys = {}
            for i, (e, x) in enumerate(zip(s.elements, np.array(s.positions))):
                keys.setdefault(key(e, x), i)
            orig = [keys.get(key(e, x), -1) for e, x in zip(t.elements, np.array(t.positions))]
            if -1 in orig or len(keys) != len(s):
                raise LookupError("identity of supercell atoms not recoverable")
            return dict(after=groups(find(t, p, atol)), map_=orig, mult=2)
        try:
            evs.append(gev("supercell-2x1x1", "replicate", base, **rep()))
        except LookupError:
            pass
        except Exception as e:
            evs.append(gev("supercell-2x1x1", "replicate", base, exc=type(e).__name__ + ": " + str(e)[:80]))
    return evs


FIT_BLANK = {"natoms": 0, "npat": 0, "matches": [], "atol": 0, "widths_ok": "yes", "inside": "yes", "el_ok": [], "rms": [], "rpos_ok": [], "rot_rms": []}
PROP_CLAUSES = {
    "C01": lambda kind, what, vd: kind == "fit" and vd != "group-reported-twice",
    "C02": lambda kind, what, vd: vd == "group-reported-twice" or (kind == "groups" and what in ("independent-exhaustive-search", "re-execution-of-the-recorded-call")),
    "C03": lambda kind, what, vd: kind == "groups" and what not in ("independent-exhaustive-search",),
}


def run(out, prop, tier, sd, calls=None, only=None):
    from .atomsops import record_test_suite
    if calls is None:
        calls, st = record_test_suite(calls=True)
    else:
        st = {}
    finds = [c for c in calls if c["kind"] == "find"]
    uniq = {}
    for c in finds:
        key = json.dumps({k: c[k] for k in ("S", "P", "kw", "idx", "exc", "rpos", "quat")}, sort_keys=True)
        uniq.setdefault(key, c)
    # one representative per (test, structure size, pattern size, options) beyond the first few of a test: the
    # "100 random rotations" tests repeat one shape
    per = {}
    chosen = []
    cap = 4 if tier == "quick" else 25
    for c in uniq.values():
        k = (c["test"], len(c["S"]["el"]), len(c["P"]["el"]))
        per[k] = per.get(k, 0) + 1
        if per[k] <= cap:
            chosen.append(c)
    if only is not None:
        chosen = [c for c in chosen if c["test"] == only]
    named = []
    for c in chosen:
        ev = fit_event(c)
        named.append((c["test"], ev))
        if prop in ("C02", "C03") and c["exc"] == "none" and ev["widths_ok"] == "yes" and ev["inside"] == "yes":
            for g in relation_events(c, sd, tier):
                named.append((c["test"], g))
    items = []
    for name, ev in named:
        it = dict(RBLANK)
        it.update(FIT_BLANK)
        it.update(ev)
        items.append(it)
    verdicts = shard_validate("Trace_RealFiles", TRACE_CFG, items, shards=4, workers=1, tag="val-recfind-" + prop, heap="3g") if items else []
    out.evaluations += len(items)
    out.traces += len(items)
    by = {}
    for (name, ev), vd in zip(named, verdicts):
        what = ev.get("what") or ev["kind"]
        key = "%s/%s" % (what.split("-[")[0], vd)
        by[key] = by.get(key, 0) + 1
        if vd == "ok" or vd.startswith("blocked"):
            if vd == "ok":
                out.case({"recorded_find": name, "event": what, "n": ev.get("natoms", len(ev.get("base", [])))})
            continue
        if not PROP_CLAUSES[prop](ev["kind"], what, vd):
            continue
        out.violation({"op": "recorded-find:" + ev["kind"], "clause": vd, "flags": [what], "exc": ev["exc"], "exc_msg": ""},
                      {"recorded_find_test": name, "event": {k: (v if not isinstance(v, list) or len(v) < 60 else "<%d entries>" % len(v)) for k, v in ev.items()}})
    out.notes["recorded_searches_of_repo_tests"] = dict(st, recorded=len(finds), distinct=len(uniq), judged_inputs=len(chosen), events=len(items), verdicts=dict(sorted(by.items())))
