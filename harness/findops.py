"""C01-C03: pattern search on lattice crystals.

MC_Find (TLC) builds crystals and checks the design of the search on the model; every emitted crystal is
rendered to floating point under several representations (scale / tolerance class, global rotation, rigid
motion of the pattern, atom permutation, jitter, RNG seeds, hint triples, supercells), searched with
mofun.find_pattern_in_structure, the answer projected to integers, and judged by TLC (Trace_Find)."""
import contextlib
import io
import itertools
import json
import multiprocessing
import random

import numpy as np

from . import katoms
from .tlcrun import run_tlc, tla_string_to_json, MachineryError
from .common import time_limit, Outcome, shard_validate, seed

# (scale in Angstrom per lattice unit, atol): atol/scale <= 1/32 lattice units (margin proven in MC_Find's ASSUMEs)
# the last two (tol = 1/4 unit) only for P26dome, see MC_Find.Dome; in the very last the lifted atom is 0.2 A off, which is
# less than sqrt(tol) (a deviation compared with tol where tol^2 is meant still accepts it)
TOL_CLASSES = [(1.6, 0.05), (3.2, 0.1), (1.0, 0.02), (2.0, 0.05), (0.4, 0.1), (0.2, 0.05)]
NORMAL_CLASSES = 4

C01_CLAUSES = {"match-shape", "distinct-atoms", "elements-in-pattern-order", "position-is-stored-plus-lattice-vector",
               "distances", "mirror-image-reported", "rotation-carries-pattern-onto-match", "spurious-group"}
C02_CLAUSES = {"group-reported-twice", "occurrence-missed", "spurious-group"}
C03_ONLY = {"supercell-cell", "supercell-atoms", "supercell-count"}

TRACE_CFG = "SPECIFICATION Spec\nINVARIANT Report\nCHECK_DEADLOCK FALSE\n"


def mc_cfg(c, emit, check):
    lines = ["SPECIFICATION Spec", "CONSTANTS"]
    for k in ("CellNames", "PatNames", "MaxCopies", "MaxDecoys", "MaxAtoms"):
        lines.append("  %s = %s" % (k, c[k]))
    lines.append("  AnchorSet <- %s" % c["Anchors"])
    lines.append("  DecoySet <- %s" % c["Decoys"])
    lines.append("  DecoyRots <- %s" % c["DecoyRots"])
    lines.append("  ShiftSet <- %s" % c.get("Shifts", "ShiftQ"))
    lines.append("  PlantRots <- %s" % c.get("PlantRots", "Rot24"))
    lines.append("  DecoyKinds = %s" % c.get("Kinds", '{"mirror", "near", "atom"}'))
    lines.append("  Emit = %s" % ("TRUE" if emit else "FALSE"))
    lines.append("  NegativeControl = %s" % c.get("Neg", "FALSE"))
    lines.append("  Sim = %s" % ("TRUE" if "num" in c else "FALSE"))
    lines.append("VIEW view")
    if check:
        lines += ["INVARIANT " + c.get("Inv", "FindInv")]
        if c.get("Inv", "FindInv") == "FindInv":
            lines += ["PROPERTY ShiftInvariant"]
    if emit:
        lines.append("INVARIANT EmitInv")
    lines.append("CHECK_DEADLOCK FALSE")
    return "\n".join(lines) + "\n"


ALLP = '{"P1", "P2h", "P2s", "P3lin", "P3het", "P3iso", "P3sca", "P4tet", "P4chi", "P4ax", "P4sam", "P5"}'
TIERS = {
    "quick": dict(
        exhaustive=dict(CellNames='{"ort", "trineg", "skew"}', PatNames='{"P2s", "P3iso", "P3het", "P4ax", "P4tet"}',
                        MaxCopies=1, MaxDecoys=0, MaxAtoms=9, Anchors="AnchQ", Decoys="DecoyQ", DecoyRots="RotsQ", Shifts="ShiftQ1"),
        extra=[dict(CellNames='{"big", "bigtri"}', PatNames='{"P4flat"}', MaxCopies=0, MaxDecoys=1, MaxAtoms=8,
                    Anchors="AnchB", Decoys="DecoyQ", DecoyRots="Rot24", Shifts="ShiftQ1", Kinds='{"mirror"}'),
               dict(CellNames='{"huge", "hugetri"}', PatNames='{"P3long"}', MaxCopies=1, MaxDecoys=1, MaxAtoms=6,
                    Anchors="AnchH", Decoys="DecoyQ", DecoyRots="RotsQ", PlantRots="RotsQ", Shifts="ShiftQ1", Kinds='{"bend"}'),
               dict(CellNames='{"cub"}', PatNames='{"P4half"}', MaxCopies=1, MaxDecoys=0, MaxAtoms=6,
                    Anchors="AnchB", Decoys="DecoyQ", DecoyRots="RotsQ", Shifts="ShiftQ1"),
               dict(CellNames='{"mid", "midtri"}', PatNames='{"P26dome"}', MaxCopies=0, MaxDecoys=1, MaxAtoms=52,
                    Anchors="AnchM", Decoys="DecoyQ", DecoyRots="RotsQ", PlantRots="RotsQ", Shifts="ShiftQ1", Kinds='{"dome"}')],
        simulate=dict(CellNames='{"cub", "ort", "tri", "trineg", "skew"}', PatNames=ALLP,
                      MaxCopies=2, MaxDecoys=2, MaxAtoms=12, Anchors="AnchT", Decoys="DecoyT", DecoyRots="Rot24",
                      num=6, depth=5, workers=8, sample=400),
        negative=dict(CellNames='{"narrow"}', PatNames='{"P2far"}', MaxCopies=1, MaxDecoys=0, MaxAtoms=9,
                      Anchors="AnchQ", Decoys="DecoyQ", DecoyRots="RotsQ", Neg="TRUE", Inv="NarrowBreaks"),
        variants=3),
    "thorough": dict(
        exhaustive=dict(CellNames='{"cub", "ort", "tri", "trineg", "skew"}', PatNames=ALLP,
                        MaxCopies=1, MaxDecoys=0, MaxAtoms=10, Anchors="AnchQ", Decoys="DecoyQ", DecoyRots="RotsQ", Shifts="ShiftQ"),
        extra=[dict(CellNames='{"trineg", "skew"}', PatNames='{"P4chi", "P4ax", "P4sam", "P5"}', MaxCopies=1, MaxDecoys=1, MaxAtoms=10,
                    Anchors="AnchB", Decoys="DecoyQ", DecoyRots="RotsQ", Shifts="ShiftQ1"),
               dict(CellNames='{"big", "bigtri"}', PatNames='{"P4flat", "P4ax"}', MaxCopies=1, MaxDecoys=1, MaxAtoms=8,
                    Anchors="AnchB", Decoys="DecoyQ", DecoyRots="Rot24", Shifts="ShiftQ1", Kinds='{"mirror"}'),
               dict(CellNames='{"huge", "hugetri"}', PatNames='{"P3long"}', MaxCopies=1, MaxDecoys=1, MaxAtoms=6,
                    Anchors="AnchH", Decoys="DecoyQ", DecoyRots="Rot24", PlantRots="Rot24", Shifts="ShiftQ1", Kinds='{"bend"}'),
               dict(CellNames='{"mid", "midtri"}', PatNames='{"P26dome"}', MaxCopies=1, MaxDecoys=1, MaxAtoms=52,
                    Anchors="AnchM", Decoys="DecoyQ", DecoyRots="RotsQ", PlantRots="RotsQ", Shifts="ShiftQ1", Kinds='{"dome"}'),
               dict(CellNames='{"cub"}', PatNames='{"P4half"}', MaxCopies=1, MaxDecoys=1, MaxAtoms=9,
                    Anchors="AnchQ", Decoys="DecoyQ", DecoyRots="RotsQ", Shifts="ShiftQ1"),
               dict(CellNames='{"ort", "trineg"}', PatNames='{"P2s", "P3iso", "P4ax"}', MaxCopies=2, MaxDecoys=0, MaxAtoms=8,
                    Anchors="AnchB", Decoys="DecoyQ", DecoyRots="RotsQ", PlantRots="RotsQ", Shifts="ShiftQ1")],
        simulate=dict(CellNames='{"cub", "ort", "tri", "trineg", "skew"}', PatNames=ALLP,
                      MaxCopies=3, MaxDecoys=2, MaxAtoms=14, Anchors="AnchT", Decoys="DecoyT", DecoyRots="Rot24",
                      num=40, depth=6, workers=16, sample=5000),
        negative=dict(CellNames='{"narrow"}', PatNames='{"P2far"}', MaxCopies=1, MaxDecoys=0, MaxAtoms=9,
                      Anchors="AnchQ", Decoys="DecoyQ", DecoyRots="RotsQ", Neg="TRUE", Inv="NarrowBreaks"),
        variants=4),
}


def _rot24():
    out = []
    for perm in itertools.permutations(range(3)):
        for sg in itertools.product([1, -1], repeat=3):
            M = np.zeros((3, 3))
            for r in range(3):
                M[r, perm[r]] = sg[r]
            if round(np.linalg.det(M)) == 1:
                out.append(M)
    return out


ROT24 = _rot24()


def valid_hints(pat):
    """all (axisp1, axisp2, opoint) with distinct points and the orientation point off the axis; for collinear or
    two-atom patterns (axisp1, axisp2, None)"""
    P = [np.array(a["pos"], dtype=float) for a in pat]
    n = len(P)
    out = []
    for a, b in itertools.permutations(range(n), 2):
        offs = [o for o in range(n) if o not in (a, b) and np.linalg.norm(np.cross(P[b] - P[a], P[o] - P[a])) > 1e-9]
        if offs:
            out += [(a, b, o) for o in offs]
        else:
            out.append((a, b, None))
    return out


def make_variant(crystal, vi, rnd, nvariants):
    """vi = 0 is the plain representation; the others transform structure, pattern and request"""
    pat = crystal["pat"]
    if vi == 0:
        return dict(cls=0, Q=None, pmove=None, pcube=None, perm=None, jitter=None, rseed=0, hints=None, dims=None)
    hs = valid_hints(pat)
    if vi % 3 == 1:
        # exact representation: pattern turned by a cube rotation (axis-aligned and exactly antiparallel poses
        # occur), atoms permuted, other seeds; no jitter, no global rotation
        v = dict(cls=rnd.randrange(NORMAL_CLASSES), Q=None, pmove=None, pcube=rnd.randrange(24),
                 perm=rnd.randrange(1 << 30), jitter=None, rseed=rnd.randrange(1 << 30), hints=None, dims=None)
        if hs and rnd.random() < 0.5:
            v["hints"] = list(rnd.choice(hs))
        if rnd.random() < 0.3:
            v["split"] = rnd.randrange(1 << 30)
        if rnd.random() < 0.5:
            # the whole crystal turned by an exact cube rotation (not the identity): a box-shaped cell stays exactly
            # orthogonal (all angles exactly 90 degrees) but is no longer diagonal
            v["Qc"] = rnd.randrange(1, 24)
        return v
    v = dict(cls=rnd.randrange(NORMAL_CLASSES), Q=rnd.randrange(1 << 30) if vi % 2 == 1 else None,
             pmove=rnd.randrange(1 << 30), pcube=None, perm=rnd.randrange(1 << 30), jitter=rnd.randrange(1 << 30),
             rseed=rnd.randrange(1 << 30), hints=None, dims=None)
    if hs:
        zero = [h for h in hs if 0 in h[:2]]
        v["hints"] = list(rnd.choice(zero if (zero and vi % 2 == 0) else hs))
    if len(pat) >= 2 and rnd.random() < 0.3:
        # partial hint: only one of the two axis points is given (the other is chosen by the library)
        k = rnd.choice([0, 0, len(pat) - 1, rnd.randrange(len(pat))])
        v["hints"] = [k, None, None] if rnd.random() < 0.5 else [None, k, None]
    if rnd.random() < 0.3:
        v["split"] = rnd.randrange(1 << 30)
    if rnd.random() < 0.4:
        # history: the same object is searched once in another state (atoms listed in another order and moved), then
        # brought into the state of this representation by in-place edits / rebinding / translate, and searched again
        v["prior"] = [rnd.randrange(1 << 30), rnd.choice(["inplace", "rebind", "translate"])]
    if (vi == 2 and rnd.random() < 0.25) or vi == 5:
        v["dims"] = rnd.choice([[2, 1, 1], [1, 2, 1], [1, 1, 2]] if vi == 2 else [[2, 1, 2], [1, 3, 1], [2, 2, 1]])
        v["Q"] = None if vi == 2 else v["Q"]
    return v


def build(crystal, v):
    """render crystal and pattern; returns (structure Atoms, pattern Atoms, info needed to project)"""
    from mofun import Atoms
    if crystal.get("patname") == "P26dome":
        v["cls"] = 4 if v["rseed"] % 2 == 0 else 5
    s, atol = TOL_CLASSES[v["cls"]]
    Q = np.eye(3) if v["Q"] is None else katoms.random_rotation(np.random.default_rng(v["Q"]))
    if v.get("Qc") is not None:
        Q = ROT24[v["Qc"]]
    R = katoms.Rendering("r", s, Q)
    cell = R.vec(crystal["cell"])
    pos = R.vec([a["pos"] for a in crystal["atoms"]])
    els = [a["el"] for a in crystal["atoms"]]
    n = len(els)
    if v["jitter"] is not None:
        jr = np.random.default_rng(v["jitter"])
        d = jr.uniform(-1, 1, size=(n, 3)) * atol / 50.0
        inv = np.linalg.inv(cell)
        f = pos @ inv
        df = d @ inv
        bad = (f + df < 0) | (f + df >= 1)      # stay inside the cell (precondition of the properties)
        df = np.where(bad, -df, df)
        pos = (f + df) @ cell
    perm = list(range(n))
    if v["perm"] is not None:
        random.Random(v["perm"]).shuffle(perm)      # perm[new index] = original index
    ppos = R.vec([a["pos"] for a in crystal["pat"]])
    if v.get("pcube") is not None:
        ppos = ppos @ ROT24[v["pcube"]].T
    if v["pmove"] is not None:
        pr = np.random.default_rng(v["pmove"])
        Rp = katoms.random_rotation(pr)
        ppos = ppos @ Rp.T + pr.uniform(-20, 20, size=3)
    with contextlib.redirect_stderr(io.StringIO()):
        if v.get("split") is not None:
            # force-field style typing: every element is listed under two atom type ids, atoms use either
            uniq = sorted(set(els))
            sr = random.Random(v["split"])
            st = Atoms(atom_types=[uniq.index(els[i]) + (len(uniq) if sr.random() < 0.5 else 0) for i in perm],
                       atom_type_elements=uniq + uniq, positions=pos[perm], cell=cell)
        else:
            st = Atoms(elements=[els[i] for i in perm], positions=pos[perm], cell=cell)
        pt = Atoms(elements=[a["el"] for a in crystal["pat"]], positions=ppos)
    return st, pt, dict(R=R, atol=atol, perm=perm, cell=cell)


def project_answer(st, pt, info, ans, orig_index):
    """(indices, positions, quats) -> list of {t, ns, lat, rot}; orig_index maps an index of `st` to the 1-based
    atom number of the abstract crystal the event is judged against"""
    idx, positions, quats = ans
    atol = info["atol"]
    inv = np.linalg.inv(np.array(st.cell, dtype=float))
    out = []
    for m, tup in enumerate(idx):
        t = [int(orig_index[int(i)]) for i in tup]
        q = np.array(positions[m], dtype=float)
        stored = np.array([st.positions[int(i)] for i in tup], dtype=float)
        fr = (q - stored) @ inv
        ns = np.rint(fr)
        lat = "ok" if np.abs(fr - ns).max() < 1e-6 else "residual %.3g" % float(np.abs(fr - ns).max())
        Rm = quats[m]
        rp = Rm.apply(np.array(pt.positions, dtype=float))
        tr = (q - rp).mean(axis=0)
        res = float(np.abs(rp + tr - q).max())
        rot = int(min(10 ** 8, round(1000.0 * res / atol)))
        # only "within the tolerance or not" is judged; residuals within the bound are reported as 0 so that
        # executions differing only in floating-point noise are one event
        out.append({"t": t, "ns": [[int(x) for x in row] for row in ns], "lat": lat, "rot": rot if rot > 1000 else 0})
    return out


def run_find(crystal, v):
    """one observed call -> event for Trace_Find"""
    from mofun import find_pattern_in_structure
    ev = {"kind": "find", "cell": crystal["cell"], "atoms": crystal["atoms"], "pat": crystal["pat"], "ans": [],
          "exc": "none", "rotbound": 1100, "dims": [1, 1, 1], "rcell": crystal["cell"], "ratoms": []}
    st, pt, info = build(crystal, v)
    orig = {new: old + 1 for new, old in enumerate(info["perm"])}
    try:
        with contextlib.redirect_stderr(io.StringIO()), contextlib.redirect_stdout(io.StringIO()):
            if v["dims"] is not None:
                if v.get("prior") is not None:
                    # search -> replicate -> search: nothing remembered from searching the unit cell may leak into the supercell
                    hk = {}
                    if v["hints"] is not None:
                        hk = {k: x for k, x in zip(("axisp1_idx", "axisp2_idx", "opoint_idx"), v["hints"]) if x is not None}
                    try:
                        with time_limit(180):
                            find_pattern_in_structure(st, pt, atol=info["atol"], **hk)
                    except Exception:
                        pass
                st = st.replicate(tuple(v["dims"]))
                ev["kind"] = "replicated"
                ev["dims"] = list(v["dims"])
                R = info["R"]
                ic, res = R.unvec(st.cell)
                ip, res2 = R.unvec(st.positions)          # jittered by <= tol/50: rounds to the lattice point
                ev["rcell"] = ic.tolist()
                ev["ratoms"] = [{"el": str(e), "pos": [int(x) for x in p]} for e, p in zip(st.elements, ip)]
                orig = {i: i + 1 for i in range(len(st))}
            random.seed(v["rseed"])
            np.random.seed(v["rseed"] % (2 ** 32))
            kw = {}
            if v["hints"] is not None:
                kw = {k: (x if v["rseed"] % 2 == 0 else np.int64(x)) for k, x in zip(("axisp1_idx", "axisp2_idx", "opoint_idx"), v["hints"]) if x is not None}
            if v.get("prior") is not None and v["dims"] is None:
                _search_in_prior_state(st, pt, info, v["prior"], kw)
            with time_limit(180):
                ans = find_pattern_in_structure(st, pt, atol=info["atol"], return_positions_and_quats=True, **kw)
                plain = find_pattern_in_structure(st, pt, atol=info["atol"], **kw) if v["rseed"] == 0 else None
        ev["ans"] = project_answer(st, pt, info, ans, orig)
        if plain is not None and sorted(sorted(t) for t in plain) != sorted(sorted(int(i) for i in t) for t in ans[0]):
            ev["exc"] = "plain-call-differs-from-call-with-positions"
    except Exception as e:
        ev["exc"] = type(e).__name__
        ev["exc_msg"] = str(e)[:200]
    return ev


def _search_in_prior_state(st, pt, info, prior, kw):
    """search `st` once in another state, then restore the state it was built in (what is remembered from the first search
    must not leak into the second).  Exceptions of the first search are ignored: its state may be outside the domain."""
    from mofun import find_pattern_in_structure
    seed_, mode = prior
    rg = np.random.default_rng(seed_)
    P, T = np.array(st.positions, dtype=float).copy(), np.array(st.atom_types).copy()
    n = len(P)
    cell = np.array(st.cell, dtype=float)
    if mode == "translate":
        d = rg.uniform(-0.5, 0.5, size=3) @ cell
        st.translate(d)
    else:
        p2 = rg.permutation(n)
        moved = ((P[p2] @ np.linalg.inv(cell) + rg.uniform(0, 1, size=3)) % 1.0) @ cell
        if mode == "inplace":
            st.positions[:] = moved
            st.atom_types[:] = T[p2]
        else:
            st.positions = moved
            st.atom_types = T[p2].copy()
    try:
        with time_limit(180):
            find_pattern_in_structure(st, pt, atol=info["atol"], **kw)
    except Exception:
        pass
    if mode == "translate":
        st.translate(-d)
    elif mode == "inplace":
        st.positions[:] = P
        st.atom_types[:] = T
    else:
        st.positions = P.copy()
        st.atom_types = T.copy()


def _exec_chunk(task):
    crystals, sd, nvar = task
    out = []
    for ci, crystal in crystals:
        rnd = random.Random(sd * 1000003 + ci)
        for vi in range(nvar):
            v = make_variant(crystal, vi, rnd, nvar)
            out.append((ci, vi, v, run_find(crystal, v)))
    return out


def generate(tier_cfg, sd, out):
    crystals = []
    # exhaustive model run (design-level check) + emission
    for n, ex in enumerate([tier_cfg["exhaustive"]] + tier_cfg.get("extra", [])):
        res = run_tlc("MC_Find", mc_cfg(ex, False, True), workers=16, timeout=3000, coverage=(n == 0), tag="mcfind")
        if res.error:
            raise MachineryError("MC_Find failed:\n" + res.error)
        out.model("MC_Find(exhaustive %d: %s x %s)" % (n, ex["CellNames"], ex["PatNames"]), res)
        if res.violated:
            out.violation({"op": "spec", "clause": "design-level property violated: %s" % res.violated},
                          {"tlc_output_tail": res.stdout[-3000:]})
        g = run_tlc("MC_Find", mc_cfg(ex, True, False), workers=8, timeout=3000, tag="genfind")
        if g.error:
            raise MachineryError("MC_Find emission failed:\n" + g.error)
        crystals += [tla_string_to_json(rest) for t, rest in g.printed if t == "CRYSTAL"]
    # negative control: the same claim in a too narrow cell must be refuted (non-vacuity of the design check)
    neg = tier_cfg["negative"]
    nres = run_tlc("MC_Find", mc_cfg(neg, False, True), workers=8, timeout=1200, tag="mcneg")
    if nres.error:
        raise MachineryError("negative control failed to run:\n" + nres.error)
    if "NarrowBreaks" not in nres.violated:
        raise MachineryError("negative control not refuted: the design-level invariant is vacuous")
    out.notes["negative_control"] = "NarrowBreaks refuted as expected (%d states)" % nres.distinct
    n_ex = len(crystals)
    # random deeper crystals: TLC -simulate evaluates EmitInv on every successor it generates, so a few traces
    # already give thousands of distinct crystals; a seeded sample of them is executed
    sim = tier_cfg["simulate"]
    sres = run_tlc("MC_Find", mc_cfg(sim, True, False), workers=sim["workers"], timeout=3000, tag="simfind",
                   simulate="num=%d" % sim["num"], depth=sim["depth"], seed=sd + 17)
    if sres.error:
        raise MachineryError("MC_Find simulation failed:\n" + sres.error)
    seen = sorted(set(rest for t, rest in sres.printed if t == "CRYSTAL"))
    random.Random(sd).shuffle(seen)
    picked = 0
    for rest in seen:
        c = tla_string_to_json(rest)
        if c["inside"] and c["widths"] and len(c["hist"]) >= 2:
            crystals.append(c)
            picked += 1
            if picked >= sim["sample"]:
                break
    out.notes["crystals_exhaustive"] = n_ex
    out.notes["crystals_simulated"] = len(crystals) - n_ex
    out.models.append({"name": "MC_Find(simulate, emission only)", "emitted_distinct": len(seen), "sampled": picked, "wall_s": round(sres.wall, 2)})
    return [c for c in crystals if c["inside"] and c["widths"]]


def attribute(prop, ev, verdict, vi, v):
    """does a rejected event count against `prop`?"""
    if verdict == "no-exception":
        if prop == "C03":
            return vi > 0
        return vi == 0 or v["hints"] is None
    if prop == "C01":
        return verdict in C01_CLAUSES
    if prop == "C02":
        return verdict in C02_CLAUSES
    if prop == "C03":
        return vi > 0 or verdict in C03_ONLY
    return False


def run(prop, tier, replay=None):
    import time
    out = Outcome(prop, tier)
    sd = seed()
    cfg = TIERS[tier]
    t0 = time.time()
    phase = {}
    out.rule = ("crystals = states of MC_Find (exhaustive bounded + simulated); each searched under %d representations "
                "(tolerance class, global rotation, pattern motion, permutation, jitter, RNG seeds, hint triples incl. "
                "index 0, supercells); a case = one distinct observed (crystal, answer) event; non-trivial = the crystal "
                "contains at least one occurrence or decoy" % cfg["variants"])
    if replay and "recorded_find_test" in json.load(open(replay))["case"]:
        from . import recfind
        recfind.run(out, prop, tier, sd, only=json.load(open(replay))["case"]["recorded_find_test"])
        return out.finish()
    if replay:
        rp = json.load(open(replay))["case"]
        results = [(0, rp["variant_index"], rp["variant"], run_find(rp["crystal"], rp["variant"]))]
        crystals = [rp["crystal"]]
    else:
        crystals = generate(cfg, sd, out)
        phase["generate"] = round(time.time() - t0, 1)
        if not crystals:
            raise MachineryError("no crystal generated")
        idx = list(enumerate(crystals))
        chunks = [(idx[k::28], sd, cfg["variants"]) for k in range(28)]
        with multiprocessing.get_context("fork").Pool(14) as pool:
            results = [r for part in pool.map(_exec_chunk, chunks, chunksize=1) for r in part]
    out.evaluations = len(results)
    phase["execute"] = round(time.time() - t0, 1)
    events, where = {}, {}
    for ci, vi, v, ev in results:
        e = {k: x for k, x in ev.items() if k != "exc_msg"}
        key = json.dumps(e, sort_keys=True)
        if key not in events:
            events[key] = e
            where[key] = []
        where[key].append((ci, vi, v, ev))
    keys = list(events)
    verdicts = shard_validate("Trace_Find", TRACE_CFG, [events[k] for k in keys], shards=14, workers=1, tag="val-" + prop)
    out.traces = len(keys)
    phase["validate"] = round(time.time() - t0, 1)
    out.notes["phase_end_s"] = phase
    by = {}
    for k, vd in zip(keys, verdicts):
        e = events[k]
        if e["ans"] or len(e["atoms"]) > len(e["pat"]):
            out.case(e)
        if vd == "ok":
            if e["ans"]:
                out.sample({"cell": e["cell"], "pattern": e["pat"], "natoms": len(e["atoms"]), "answer": e["ans"][:2],
                            "verdict": vd})
            continue
        by[vd] = by.get(vd, 0) + 1
        for ci, vi, v, ev in where[k]:
            if attribute(prop, ev, vd, vi, v):
                sig = {"op": e["kind"], "clause": vd, "flags": flags(crystals[ci], v), "exc": ev["exc"],
                       "exc_msg": ev.get("exc_msg", "")}
                out.violation(sig, {"crystal": crystals[ci], "variant": v, "variant_index": vi, "observed": ev})
                break
    out.notes["rejected_by_clause"] = by
    if prop == "C03" and not replay:
        from . import realfiles
        realfiles.run_c03(out, tier, sd)
    if not replay:
        # the searches the repository's own tests make (floating-point molecules and MOF fragments), judged at relation level
        from . import recfind
        recfind.run(out, prop, tier, sd)
    out.assumptions = ["harness/findops.py rendering and projection (numpy): positions un-rendered to integers, lattice "
                       "vectors and the rotation residual computed in floating point",
                       "tolerance margins: atol/scale <= 1/32 lattice unit, jitter <= atol/50 (TLC ASSUMEs in MC_Find)"]
    return out.finish()


def flags(crystal, v):
    f = []
    if v["hints"] is not None:
        if v["hints"][0] == 0 or v["hints"][1] == 0:
            f.append("hint-index-0")
        f.append("partial-hint" if (v["hints"][0] is None or v["hints"][1] is None) else "hints")
    if v["dims"] is not None:
        f.append("supercell")
    return f
