"""C19: term enumeration and typing.  MC_Terms (TLC) enumerates bond graphs and type assignments and checks the
definition against closed counting formulas; the harness runs calc_angles / calc_dihedrals / assign_*_types /
retype_atoms_from_uff_types on each graph - as given, and renamed / reordered / redirected - and TLC (Trace_Terms)
judges the enumeration, the type partition, the labels of the coefficient entries, dropped and excluded terms.
Coefficient numbers are compared with the independent evaluator of C18."""
import contextlib
import io
import json
import multiprocessing
import random

import numpy as np

from . import gen, uffops
from .tlcrun import run_tlc, tla_string_to_json, MachineryError
from .common import Outcome, shard_validate, seed

TRACE_CFG = "SPECIFICATION Spec\nINVARIANT Report\nCHECK_DEADLOCK FALSE\n"


def cfg(c, emit):
    return ("SPECIFICATION Spec\nCONSTANTS\n  MaxNodes = %d\n  Palette <- PaletteStd\n  NAssign = %d\n  Emit = %s\nINVARIANT %s\nCHECK_DEADLOCK FALSE\n"
            % (c["MaxNodes"], c["NAssign"], "TRUE" if emit else "FALSE",
               "EmitInv" if emit else "CountInv"))


def tuples(arr, w):
    a = np.array(arr)
    return [[int(x) for x in row] for row in a.reshape(-1, w)] if a.size else []


def parse_label(co, n):
    """'<numbers> # a1 a2 ...' -> type names (and M for dihedrals)"""
    body, com = co.split("#", 1)
    toks = com.split()
    names = toks[:n]
    m = int(toks[n].split("=")[1]) if len(toks) > n and toks[n].startswith("M=") else 0
    return names, m, body.split()


def variant(g, vi, rnd):
    """renaming of atoms, reordering and redirecting of the bond list"""
    bonds = [list(b) for b in g["bonds"]]
    ty = list(g["ty"])
    n = len(ty)
    if vi == 0:
        return bonds, ty
    perm = list(range(n))
    rnd.shuffle(perm)                     # new name of atom a is perm[a]
    nb = [[perm[a], perm[b]] if rnd.random() < 0.5 else [perm[b], perm[a]] for a, b in bonds]
    rnd.shuffle(nb)
    nty = [None] * n
    for a in range(n):
        nty[perm[a]] = ty[a]
    return nb, nty


def check_numbers(kind, names, m, body):
    """numeric part of a coefficient entry against the reference evaluator (formatted as the library formats it)"""
    try:
        if kind == "bond":
            from mofun.rough_uff import guess_bond_order
            with contextlib.redirect_stderr(io.StringIO()):
                bo = guess_bond_order(*names)
            k, r = uffops.ref_bond(names[0], names[1], bo)
            return body == ("%10.6f %10.6f" % (k, r)).split()
        if kind == "angle":
            from mofun.rough_uff import guess_bond_order
            with contextlib.redirect_stderr(io.StringIO()):
                b1, b2 = guess_bond_order(names[0], names[1]), guess_bond_order(names[1], names[2])
            K, c0, c1, c2 = uffops.ref_angle(names[0], names[1], names[2], b1, b2)
            if body[0] == "fourier":
                return body[1:] == ("%10.6f %10.6f %10.6f %10.6f" % (K, c0, c1, c2)).split()
            return body[0] == "cosine/periodic" and body[1] == ("%10.6f" % K).strip()
        return True
    except Exception:
        return False


def observe(g, vi, rnd, ex):
    from mofun import Atoms
    from mofun import rough_uff as ru
    bonds, ty = variant(g, vi, rnd)
    n = len(ty)
    enum = {"kind": "enum", "bonds": bonds, "angles": [], "dihedrals": [], "exc": "none"}
    typed = {"kind": "types", "bonds": bonds, "ty": ty, "ex": sorted(ex), "angles": [], "dihedrals": [], "exc": "none", "num": "ok", "retype": "ok",
             "obonds": {"terms": [], "types": [], "labels": [], "m": []}, "oangles": {"terms": [], "types": [], "labels": [], "m": []},
             "odihedrals": {"terms": [], "types": [], "labels": [], "m": []}}
    try:
        with contextlib.redirect_stderr(io.StringIO()), contextlib.redirect_stdout(io.StringIO()):
            ang = ru.calc_angles(bonds)
            dih = ru.calc_dihedrals(bonds)
        enum["angles"], enum["dihedrals"] = tuples(ang, 3), tuples(dih, 4)
    except Exception as e:
        enum["exc"] = type(e).__name__
        return [enum]
    typed["angles"], typed["dihedrals"] = enum["angles"], enum["dihedrals"]
    try:
        with contextlib.redirect_stderr(io.StringIO()), contextlib.redirect_stdout(io.StringIO()):
            els = [t[0:2].replace("_", "") for t in ty]
            a = Atoms(elements=els, positions=[[float(i), 0.0, 0.0] for i in range(n)], bonds=bonds, bond_types=[0] * len(bonds),
                      angles=enum["angles"], angle_types=[0] * len(enum["angles"]),
                      dihedrals=enum["dihedrals"], dihedral_types=[0] * len(enum["dihedrals"]))
            exs = set(ex) if ex else None
            ru.assign_bond_types(a, ty, exclude=exs)
            ru.assign_angle_types(a, ty, exclude=exs)
            ru.assign_dihedral_types(a, ty, exclude=exs)
            for key, arr, tarr, coef, w, kind in (("obonds", a.bonds, a.bond_types, a.bond_type_coeffs, 2, "bond"),
                                                 ("oangles", a.angles, a.angle_types, a.angle_type_coeffs, 3, "angle"),
                                                 ("odihedrals", a.dihedrals, a.dihedral_types, a.dihedral_type_coeffs, 4, "dihedral")):
                o = typed[key]
                o["terms"] = tuples(arr, w)
                o["types"] = [int(x) for x in list(tarr)]
                for co in list(coef):
                    names, m, body = parse_label(str(co), w)
                    o["labels"].append(names)
                    o["m"].append(m)
                    if not check_numbers(kind, names, m, body):
                        typed["num"] = "%s coefficients of %s differ from the formulas" % (kind, " ".join(names))
            # dihedral numbers: K of the rule, with the multiplicity in the label
            for co in list(a.dihedral_type_coeffs):
                names, m, body = parse_label(str(co), 4)
                ends = ("2" if len(names[0]) > 2 and names[0][2] == "2" else "x") + ("2" if len(names[3]) > 2 and names[3][2] == "2" else "x")
                bo = ru.guess_bond_order(names[1], names[2])
                d = ru.dihedral_params(*names, num_dihedrals_about_bond=m)
                if d is None or body != ("%s %10.6f %d %d" % d).split():
                    typed["num"] = "dihedral coefficients of %s are not the parameters of that sequence with M=%d" % (" ".join(names), m)
            b = Atoms(elements=els, positions=[[float(i), 0.0, 0.0] for i in range(n)])
            ru.retype_atoms_from_uff_types(b, ty)
            from mofun.atomic_masses import ATOMIC_MASSES
            for i in range(n):
                t = b.atom_types[i]
                if b.atom_type_labels[t] != ty[i] or b.atom_type_elements[t] != els[i] or abs(b.atom_type_masses[t] - ATOMIC_MASSES[els[i]]) > 1e-9:
                    typed["retype"] = "atom %d" % i
            if len(set(b.atom_type_labels)) != len(b.atom_type_labels) or set(b.atom_type_labels) != set(ty):
                typed["retype"] = "type table is not the set of types in use"
    except Exception as e:
        typed["exc"] = type(e).__name__
        typed["exc_msg"] = str(e)[:200]
    return [enum, typed]


def _chunk(task):
    graphs, sd, nvar = task
    out = []
    for gi, g in graphs:
        rnd = random.Random(sd * 101 + gi)
        n = len(g["ty"])
        for vi in range(nvar):
            ex = []
            if vi == 2:
                ex = sorted(rnd.sample(range(n), min(n, rnd.choice([2, 3, 4]))))
            for ev in observe(g, vi, rnd, ex):
                out.append((gi, vi, ev))
    return out


def run(prop, tier, replay=None):
    out = Outcome(prop, tier)
    sd = seed()
    g = gen.all_tables()
    pal = ["C_3", "C_R", "C_2", "N_3", "O_3", "S_3+2", "C_1", "Zr3+4", "H_"]
    c = dict(MaxNodes=5, Palette=pal, NAssign=4) if tier == "quick" else dict(MaxNodes=6, Palette=pal, NAssign=9)
    out.rule = ("graphs = every triangle-free graph without isolated atoms on 2..%d atoms + 5 named 6-7 atom families, x %d type "
                "assignments from a palette reaching every torsion case; each as given, renamed + reordered + redirected, and with a random "
                "exclusion set; non-trivial = all" % (c["MaxNodes"], c["NAssign"]))
    res = run_tlc("MC_Terms", cfg(c, False), workers=16, timeout=3000, extra_modules_dir=g, tag="mcterms")
    if res.error:
        raise MachineryError("MC_Terms failed:\n" + res.error)
    out.model("MC_Terms", res)
    if res.violated:
        out.violation({"op": "spec", "clause": "model property violated: %s" % res.violated}, {"tlc": res.stdout[-2000:]})
    e = run_tlc("MC_Terms", cfg(c, True), workers=8, timeout=3000, extra_modules_dir=g, tag="genterms")
    if e.error:
        raise MachineryError("MC_Terms emission failed:\n" + e.error)
    graphs = [tla_string_to_json(rest) for t, rest in e.printed if t == "GRAPH"]
    out.exhaustive = True
    idx = list(enumerate(graphs))
    tasks = [(idx[k::28], sd, 3) for k in range(28)]
    with multiprocessing.get_context("fork").Pool(14) as pool:
        results = [r for part in pool.map(_chunk, tasks, chunksize=1) for r in part]
    out.evaluations = len(results)
    blank = {"bonds": [], "ty": [], "ex": [], "angles": [], "dihedrals": [], "exc": "none", "num": "ok", "retype": "ok",
             "obonds": {"terms": [], "types": [], "labels": [], "m": []}, "oangles": {"terms": [], "types": [], "labels": [], "m": []},
             "odihedrals": {"terms": [], "types": [], "labels": [], "m": []}}
    items = []
    for gi, vi, ev in results:
        it = dict(blank)
        it.update({k: v for k, v in ev.items() if k != "exc_msg"})
        items.append(it)
    verdicts = shard_validate("Trace_Terms", TRACE_CFG, items, shards=14, workers=1, tag="val-C19", extra=g)
    out.traces = len(items)
    by = {}
    for (gi, vi, ev), vd in zip(results, verdicts):
        out.case(ev)
        if vd == "ok":
            if ev["kind"] == "types":
                out.sample({"bonds": ev["bonds"], "types": ev["ty"], "exclude": ev["ex"], "dihedral_types": ev["odihedrals"]["types"]})
            continue
        by[vd] = by.get(vd, 0) + 1
        if vd.startswith("blocked"):
            continue
        out.violation({"op": ev["kind"], "clause": vd.split(":")[0], "flags": ["variant-%d" % vi], "exc": ev["exc"], "exc_msg": ev.get("exc_msg", ""), "detail": vd},
                      {"graph": graphs[gi], "variant": vi, "observed": ev})
    out.notes["rejected_by_clause"] = by
    out.assumptions = ["coefficient numbers compared with the reference evaluator of C18 / with the library's own parameter functions for the "
                       "labelled sequence (the property is that a type carries the parameters of its sequence)",
                       "graphs are simple and triangle-free with every atom bonded (domain of the property)"]
    return out.finish()
