"""C03 / C08 on the repository's real MOF files.  The true occurrences are unknown there, so the judgement is
relation-level (spec/RealFiles.tla): what a change of representation, a supercell, a self-replacement or a
substitution-and-back must preserve.  The harness recovers atom identities by element + fractional position modulo
the lattice (mechanically) and hands index maps to TLC, which checks that they are bijections and decides."""
import contextlib
import io
import itertools
import os
import random

import numpy as np

from . import katoms, findops
from .common import shard_validate, time_limit

TRACE_CFG = "SPECIFICATION Spec\nINVARIANT Report\nCHECK_DEADLOCK FALSE\n"
REPO = "/repo"
CASES = [
    dict(name="uio66", structure="tests/uio66/uio66.cif", pattern="tests/uio66/uio66-linker.cml", atol=0.05, site=("Zr", "Hf")),
    dict(name="uio66-triclinic", structure="tests/uio66/uio66-triclinic.lmpdat", pattern="tests/uio66/uio66-linker.cml", atol=0.2, site=("Zr", "Hf")),
    dict(name="hkust-1", structure="tests/hkust-1/hkust-1-with-bonds.cif", pattern=None, atol=0.05, site=("Cu", "Zn")),
]


def quiet():
    return contextlib.redirect_stderr(io.StringIO())


def load(path):
    from mofun import Atoms
    with quiet():
        return Atoms.load(os.path.join(REPO, path))


def cut_pattern(s, el, n_neigh):
    """a small pattern occurring in the structure: the first atom of element `el` and its n nearest neighbours
    (minimum image), as a separate Atoms object"""
    from mofun import Atoms
    i0 = [i for i, e in enumerate(s.elements) if e == el][0]
    inv = np.linalg.inv(s.cell)
    d = (s.positions - s.positions[i0]) @ inv
    d -= np.rint(d)
    cart = d @ s.cell
    order = np.argsort(np.linalg.norm(cart, axis=1))[: n_neigh + 1]
    with quiet():
        return Atoms(elements=[s.elements[i] for i in order], positions=cart[order] + 1.0)


def frac_key(s):
    f = (np.array(s.positions) @ np.linalg.inv(np.array(s.cell, dtype=float))) % 1.0
    k = np.rint(f * 1e4).astype(int) % 10000
    return [[str(e)] + [int(x) for x in row] for e, row in zip(s.elements, k)]


def groups(found):
    return [sorted(int(i) for i in t) for t in found]


def find(s, p, atol, sd=0, **kw):
    from mofun import find_pattern_in_structure
    random.seed(sd)
    np.random.seed(sd)
    with quiet(), contextlib.redirect_stdout(io.StringIO()), time_limit(300):
        return find_pattern_in_structure(s, p, atol=atol, **kw)


def gev(what, rel, base, after=None, map_=None, mult=1, exc="none"):
    return {"kind": "groups", "what": what, "rel": rel, "base": base, "after": after or [], "map": map_ or [], "mult": mult, "exc": exc}


def c03_events(case, tier, sd):
    from mofun import Atoms
    rnd = random.Random(sd)
    s = load(case["structure"])
    p = load(case["pattern"]) if case["pattern"] else cut_pattern(s, case["site"][0], 4)
    atol = case["atol"]
    base = groups(find(s, p, atol))
    evs = []

    def attempt(what, rel, fn, **kw):
        try:
            evs.append(gev(what, rel, base, **fn()))
        except Exception as e:
            evs.append(gev(what, rel, base, exc=type(e).__name__ + ": " + str(e)[:80]))
    # reseed
    attempt("another-random-seed", "same", lambda: dict(after=groups(find(s, p, atol, sd=rnd.randrange(1 << 30)))))
    # shift and wrap
    def shifted():
        t = s.copy()
        v = np.array([rnd.uniform(-30, 30) for _ in range(3)])
        f = ((t.positions + v) @ np.linalg.inv(t.cell)) % 1.0
        t.positions = f @ t.cell
        return dict(after=groups(find(t, p, atol)))
    attempt("shift-and-wrap", "same", shifted)
    # rigid motion of the pattern
    def moved():
        q = p.copy()
        R = katoms.random_rotation(np.random.default_rng(rnd.randrange(1 << 30)))
        q.positions = q.positions @ R.T + np.array([rnd.uniform(-9, 9) for _ in range(3)])
        return dict(after=groups(find(s, q, atol)))
    attempt("rigid-motion-of-the-pattern", "same", moved)
    # hints
    # real structures match only within a sizeable tolerance; an axis much shorter than the pattern amplifies the
    # deviations by the lever arm, which is outside "well inside the tolerance": keep hint triples with a long axis
    # and an orientation point far from it
    P = np.array(p.positions, dtype=float)
    diam = max(np.linalg.norm(a - b) for a in P for b in P)

    def good(h):
        ax = P[h[1]] - P[h[0]]
        if np.linalg.norm(ax) < 0.8 * diam:
            return False
        if h[2] is None:
            return True
        off = np.linalg.norm(np.cross(ax, P[h[2]] - P[h[0]])) / np.linalg.norm(ax)
        return off > 0.3 * diam
    hs = [h for h in findops.valid_hints([{"el": e, "pos": list(x)} for e, x in zip(p.elements, p.positions)]) if good(h)]
    zero = [h for h in hs if h[0] == 0 or h[1] == 0]
    # hint invariance is promised for occurrences *well inside* the tolerance: only where a four times smaller
    # tolerance finds the same groups (true for uio66.cif, not for the triclinic file, which needs atol 0.2 to match at all)
    if sorted(groups(find(s, p, atol / 4.0))) != sorted(base):
        hs, zero = [], []
    for h in ([rnd.choice(zero)] if zero else []) + ([rnd.choice(hs)] if hs else []):
        kw = {k: x for k, x in zip(("axisp1_idx", "axisp2_idx", "opoint_idx"), h) if x is not None}
        attempt("hints-%s" % (list(h),), "same", lambda kw=kw: dict(after=groups(find(s, p, atol, **kw))))
    # permutation of the atoms
    def permuted():
        n = len(s)
        order = list(range(n))
        rnd.shuffle(order)                       # new atom k is old atom order[k]
        with quiet():
            t = s[order]
        newof = [0] * n
        for k, o in enumerate(order):
            newof[o] = k
        return dict(after=groups(find(t, p, atol)), map_=newof)
    attempt("atom-permutation", "perm", permuted)
    # supercells
    dims_list = [(2, 1, 1)] if tier == "quick" else [(2, 1, 1), (1, 2, 1), (1, 1, 2), (2, 2, 1)]
    if case["name"] == "uio66-triclinic":
        dims_list = [(2, 1, 1), (1, 1, 2)] if tier == "quick" else [(2, 1, 1), (1, 2, 1), (1, 1, 2), (2, 2, 2), (3, 1, 2)]
    for dims in dims_list:
        def rep(dims=dims):
            with quiet():
                t = s.replicate(dims)
            keys = {tuple(k): i for i, k in enumerate(frac_key(s))}
            inv = np.linalg.inv(np.array(s.cell, dtype=float))
            f = (np.array(t.positions) @ inv) % 1.0
            kk = np.rint(f * 1e4).astype(int) % 10000
            orig = [keys.get((str(e),) + tuple(int(x) for x in row), -1) for e, row in zip(t.elements, kk)]
            return dict(after=groups(find(t, p, atol)), map_=orig, mult=dims[0] * dims[1] * dims[2])
        attempt("supercell-%dx%dx%d" % dims, "replicate", rep)
    return [(case["name"], ev) for ev in evs]


def tuples(arr):
    a = np.array(arr)
    return [[int(x) for x in row] for row in a] if a.size else []


def c08_events(case, tier, sd):
    from mofun import Atoms, replace_pattern_in_structure
    s = load(case["structure"])
    atol = case["atol"]
    out = []
    # self replacement
    p = load(case["pattern"]) if case["pattern"] else cut_pattern(s, case["site"][0], 4)
    with quiet():          # the identical pattern carries no terms of its own (it would add them to the structure)
        p = Atoms(elements=list(p.elements), positions=np.array(p.positions))
    ev = {"kind": "self", "exc": "none", "before": [], "after": [], "ident": [], "bonds_before": tuples(s.bonds), "bonds_after": [],
          "angles_before": tuples(s.angles), "angles_after": [], "dihedrals_before": tuples(s.dihedrals), "dihedrals_after": []}
    try:
        random.seed(sd)
        np.random.seed(sd)
        with quiet(), contextlib.redirect_stdout(io.StringIO()), time_limit(300):
            r = replace_pattern_in_structure(s, p, p.copy(), atol=atol)
        kb, ka = frac_key(s), frac_key(r)
        rows = lambda t, keys: [k + [int(round(q * 1e4)), int(g)] for k, q, g in zip(keys, t.charges, t.groups)]
        ev["before"], ev["after"] = rows(s, kb), rows(r, ka)
        index = {}
        for i, k in enumerate(kb):
            index.setdefault(tuple(k), []).append(i)
        ident = []
        for k in ka:
            lst = index.get(tuple(k), [])
            ident.append(lst.pop(0) if lst else -1)
        ev["ident"] = ident
        ev["bonds_after"], ev["angles_after"], ev["dihedrals_after"] = tuples(r.bonds), tuples(r.angles), tuples(r.dihedrals)
    except Exception as e:
        ev["exc"] = type(e).__name__ + ": " + str(e)[:80]
    out.append((case["name"], ev))
    # substitute a site and back
    A, B = case["site"]
    ev = {"kind": "back", "exc": "none", "nA": 0, "nB_before": 0, "n1": -1, "n2": -1, "rows_before": [], "rows_after": [], "found_again": -1}
    try:
        with quiet():
            # the site pattern as a user cuts it from the structure: at the coordinates of the first such atom, not at the origin
            at = [[float(x) for x in s.positions[[i for i, e in enumerate(s.elements) if e == A][0]]]] if sd % 2 == 0 else [[0.0, 0.0, 0.0]]
            pa = Atoms(elements=[A], positions=at)
            pb = Atoms(elements=[B], positions=at)
        ev["nA"] = sum(1 for e in s.elements if e == A)
        ev["nB_before"] = sum(1 for e in s.elements if e == B)
        random.seed(sd)
        with quiet(), contextlib.redirect_stdout(io.StringIO()), time_limit(450):
            s1, n1 = replace_pattern_in_structure(s, pa, pb, atol=atol, return_num_matches=True)
            again = find(s1, pa, atol)
            s2, n2 = replace_pattern_in_structure(s1, pb, pa, atol=atol, return_num_matches=True)
        ev["n1"], ev["n2"], ev["found_again"] = int(n1), int(n2), len(again)
        ev["rows_before"], ev["rows_after"] = frac_key(s), frac_key(s2)
    except Exception as e:
        ev["exc"] = type(e).__name__ + ": " + str(e)[:80]
    out.append((case["name"], ev))
    return out


BLANK = {"kind": "", "what": "", "rel": "", "base": [], "after": [], "map": [], "mult": 1, "exc": "none",
         "before": [], "ident": [], "bonds_before": [], "bonds_after": [], "angles_before": [], "angles_after": [],
         "dihedrals_before": [], "dihedrals_after": [], "nA": 0, "nB_before": 0, "n1": 0, "n2": 0, "rows_before": [], "rows_after": [],
         "found_again": 0}


def judge(out, prop, named_events):
    items = []
    for name, ev in named_events:
        it = dict(BLANK)
        it.update(ev)
        items.append(it)
    verdicts = shard_validate("Trace_RealFiles", TRACE_CFG, items, shards=4, workers=1, tag="val-real-" + prop, heap="3g")
    out.evaluations += len(items)
    out.traces += len(items)
    by = {}
    for (name, ev), vd in zip(named_events, verdicts):
        key = "%s/%s/%s" % (name, ev.get("what") or ev["kind"], vd)
        by[key] = by.get(key, 0) + 1
        if vd == "ok" or vd.startswith("blocked"):
            out.case({"file": name, "event": ev.get("what") or ev["kind"]})
            continue
        out.violation({"op": "real-file:" + ev["kind"], "clause": vd, "flags": [name, ev.get("what", "")], "exc": ev["exc"], "exc_msg": ""},
                      {"file": name, "event": {k: (v if not isinstance(v, list) or len(v) < 60 else "<%d entries>" % len(v)) for k, v in ev.items()}})
    out.notes["real_files"] = by


def run_c03(out, tier, sd):
    evs = []
    for case in CASES:
        if case["name"] == "hkust-1" and tier == "quick":
            continue
        evs += c03_events(case, tier, sd)
    judge(out, "C03", evs)


def run_c08(out, tier, sd):
    evs = []
    for case in CASES:
        evs += c08_events(case, tier, sd)
    judge(out, "C08", evs)
